//! `pharness <mode> --seed S --cases N [--mix a=1,b=2] [--limit L]`
//!
//! Runs the real Pumpkin (built from /repo's working tree, feature `verif-hooks`) on generated
//! inputs and prints observation records for the Lean driver on stdout.

mod asg;
mod config;
mod dimacs_mode;
mod drcp;
mod model;
mod post;
mod rng;
mod scen;

use std::collections::BTreeMap;
use std::panic::catch_unwind;
use std::panic::AssertUnwindSafe;

use model::*;
use rng::Rng;
use scen::*;

pub struct Args {
    pub mode: String,
    pub seed: u64,
    pub cases: usize,
    pub mix: Vec<(String, u64)>,
    pub kv: BTreeMap<String, String>,
}

fn parse_args() -> Args {
    let argv: Vec<String> = std::env::args().collect();
    if argv.len() < 2 {
        eprintln!("usage: pharness <mode> --seed S --cases N [--key value]...");
        std::process::exit(2);
    }
    let mut kv = BTreeMap::new();
    let mut i = 2;
    while i + 1 < argv.len() {
        let k = argv[i].trim_start_matches("--").to_string();
        let _ = kv.insert(k, argv[i + 1].clone());
        i += 2;
    }
    let seed = kv.get("seed").map(|s| s.parse().unwrap()).unwrap_or(1);
    let cases = kv.get("cases").map(|s| s.parse().unwrap()).unwrap_or(10);
    let mix = kv
        .get("mix")
        .map(|s| {
            s.split(',')
                .map(|p| {
                    let (a, b) = p.split_once('=').unwrap();
                    (a.to_string(), b.parse().unwrap())
                })
                .collect()
        })
        .unwrap_or_default();
    Args { mode: argv[1].clone(), seed, cases, mix, kv }
}

fn pick_mix(r: &mut Rng, mix: &[(String, u64)]) -> String {
    let total: u64 = mix.iter().map(|m| m.1).sum();
    let mut k = r.below(total.max(1));
    for (name, w) in mix {
        if k < *w {
            return name.clone();
        }
        k -= *w;
    }
    mix[0].0.clone()
}

pub fn run_case(id: &str, desc: &str, f: impl FnOnce(&mut Out)) {
    use std::io::Write;
    println!("case {} {}", id, desc);
    // flushed immediately: if the case hangs inside the solver, the runner can name it
    let _ = std::io::stdout().flush();
    let mut out = Out::default();
    let r = catch_unwind(AssertUnwindSafe(|| f(&mut out)));
    for l in &out.lines {
        println!("{}", l);
    }
    if r.is_err() {
        println!("panic case {}", last_panic().replace(' ', "_"));
        if pumpkin_solver::verif_hooks::tap_is_enabled() {
            let recs = pumpkin_solver::verif_hooks::tap_drain();
            for r in recs.iter().rev().take(25).rev() {
                println!(
                    "# tap {:?} {} tag={:?} lvl={} pos={} alltrue={} {} <- {}",
                    r.kind,
                    r.propagator,
                    r.tag,
                    r.level,
                    r.trail_position,
                    r.reason_all_true,
                    r.predicate.map(|p| p.to_string()).unwrap_or("FALSE".into()),
                    r.reason.iter().map(|p| p.to_string()).collect::<Vec<_>>().join(" & ")
                );
            }
        }
    }
}

fn kinds_meta(m: &Model, out: &mut Out) {
    let kinds: Vec<String> = m
        .cons
        .iter()
        .map(|c| match c.cumopt() {
            Some(o) => format!("{}@{}", c.full_kind(), o.index()),
            None => c.full_kind(),
        })
        .collect();
    out.meta(format!("kinds {}", kinds.join(",")));
    // structural facts that known findings are keyed on
    fn repeated_start(c: &Cons) -> bool {
        match c {
            Cons::Cumulative(ts, _, _) => {
                let mut vars: Vec<usize> = ts.iter().filter(|t| t.1 > 0).map(|t| t.0.var).collect();
                let n = vars.len();
                vars.sort();
                vars.dedup();
                vars.len() < n
            }
            Cons::Implied(_, inner) | Cons::Reif(_, inner) | Cons::Neg(inner) => repeated_start(inner),
            _ => false,
        }
    }
    if m.cons.iter().any(repeated_start) {
        out.meta("cumul-repeated-start");
    }
    let shapes: Vec<String> = m
        .vars
        .iter()
        .map(|v| format!("{:?}:{}", v.kind, v.values.len()).to_lowercase())
        .collect();
    out.meta(format!("vars {}", shapes.join(",")));
}

fn cfg_from(args: &Args) -> GenCfg {
    let mut cfg = GenCfg::default();
    if let Some(k) = args.kv.get("kinds") {
        // a kind may be repeated to give it more weight
        let mut all = GenCfg::default().kinds;
        all.push("implstate"); // only on request
        cfg.kinds = k.split(',').filter_map(|y| all.iter().copied().find(|x| *x == y)).collect();
    }
    if let Some(v) = args.kv.get("maxvars") {
        cfg.max_vars = v.parse().unwrap();
    }
    if let Some(v) = args.kv.get("maxcons") {
        cfg.max_cons = v.parse().unwrap();
    }
    if let Some(v) = args.kv.get("maxproduct") {
        cfg.max_product = v.parse().unwrap();
    }
    if let Some(v) = args.kv.get("big") {
        cfg.big_pct = v.parse().unwrap();
    }
    if let Some(v) = args.kv.get("plant") {
        cfg.plant_pct = v.parse().unwrap();
    }
    if let Some(v) = args.kv.get("viewpct") {
        cfg.view_pct = v.parse().unwrap();
    }
    if let Some(v) = args.kv.get("sympct") {
        cfg.sym_pct = v.parse().unwrap();
    }
    cfg
}

/// The answer-correspondence stream used by C01–C05, C07: random model x options x brancher x scenario.
fn mode_answers(args: &Args) {
    let mut master = Rng::new(args.seed);
    let cfg = cfg_from(args);
    let mix = if args.mix.is_empty() {
        vec![("satisfy".to_string(), 3), ("iterate".to_string(), 2), ("optimise".to_string(), 2), ("assume".to_string(), 2)]
    } else {
        args.mix.clone()
    };
    let limit: usize = args.kv.get("limit").map(|s| s.parse().unwrap()).unwrap_or(3000);
    for i in 0..args.cases {
        let case_seed = master.next();
        if only_skip(args, i) {
            continue;
        }
        let mut r = Rng(case_seed);
        let m = gen_model(&mut r, &cfg);
        let setup = Setup::random(&mut r);
        let scen = pick_mix(&mut r, &mix);
        let id = format!("{}-{}", args.seed, i);
        let wide = wide_case(args, &mut r);
        let desc = format!("scen={} seed={} {}{}", scen, case_seed, setup.describe(), if wide { " wide=1" } else { "" });
        run_case(&id, &desc, |out| {
            kinds_meta(&m, out);
            match scen.as_str() {
                "satisfy" => scen_satisfy(&m, &setup, out),
                "iterate" => scen_iterate(&m, &setup, limit, out),
                "iterprefix" => {
                    let k = 1 + r.usize(6);
                    scen_iterate(&m, &setup, k, out)
                }
                "optimise" => {
                    let spec = OptSpec { maximise: r.chance(1, 2), lus: r.chance(1, 2), objective: gen_objective(&mut r, &m) };
                    let _ = scen_optimise(&m, &setup, &spec, None, out);
                }
                "assume" => {
                    let nrounds = 1 + r.usize(3);
                    let rounds: Vec<(Vec<Atom>, bool)> =
                        (0..nrounds).map(|_| (gen_assumptions(&mut r, &m), r.chance(3, 4))).collect();
                    scen_assume(&m, &setup, &rounds, out)
                }
                other => panic!("unknown scenario {}", other),
            }
        });
    }
}

fn mode_bounds(args: &Args) {
    let mut master = Rng::new(args.seed);
    let cfg = cfg_from(args);
    for i in 0..args.cases {
        let case_seed = master.next();
        if only_skip(args, i) {
            continue;
        }
        let mut r = Rng(case_seed);
        let m = gen_model(&mut r, &cfg);
        let setup = Setup::random(&mut r);
        let id = format!("{}-{}", args.seed, i);
        let wide = wide_case(args, &mut r);
        run_case(&id, &format!("scen=bounds seed={} {}{}", case_seed, setup.describe(), if wide { " wide=1" } else { "" }), |out| {
            kinds_meta(&m, out);
            scen_bounds(&m, &setup, &mut r, out)
        });
    }
}

/// `--wide P`: with probability P% the case declares its interval variables widely (see
/// `config::WIDE_DECL`); `--wide 100` (as in `one --wide 100`) forces it.
fn wide_case(args: &Args, r: &mut Rng) -> bool {
    let pct: u64 = args.kv.get("wide").map(|s| s.parse().unwrap()).unwrap_or(0);
    let wide = pct > 0 && r.below(100) < pct;
    config::WIDE_DECL.store(wide, std::sync::atomic::Ordering::Relaxed);
    wide
}

fn only_skip(args: &Args, i: usize) -> bool {
    if let Some(s) = args.kv.get("skip") {
        if s.split(',').any(|t| t.parse::<usize>().ok() == Some(i)) {
            return true;
        }
    }
    match args.kv.get("only") {
        Some(s) => s.parse::<usize>().unwrap() != i,
        None => false,
    }
}

/// C07: every model under `--nconfigs` option vectors / branchers
fn mode_configs(args: &Args) {
    let mut master = Rng::new(args.seed);
    let cfg = cfg_from(args);
    let nconfigs: usize = args.kv.get("nconfigs").map(|s| s.parse().unwrap()).unwrap_or(6);
    for i in 0..args.cases {
        let case_seed = master.next();
        if only_skip(args, i) {
            continue;
        }
        let mut r = Rng(case_seed);
        let m = gen_model(&mut r, &cfg);
        let what = *r.pick(&["satisfy", "iterate", "iterate", "optimise", "optimise"]);
        let spec = OptSpec { maximise: r.chance(1, 2), lus: r.chance(1, 2), objective: gen_objective(&mut r, &m) };
        let mut setups: Vec<Setup> = (0..nconfigs).map(|_| Setup::random(&mut r)).collect();
        // always include the default configuration and the no-learning resolver
        setups[0] = Setup { opts: config::Opts::default(), bspec: config::BrancherSpec::Default, style_seed: 0 };
        if nconfigs > 1 {
            setups[1].opts.resolver_uip = false;
        }
        let id = format!("{}-{}", args.seed, i);
        run_case(&id, &format!("scen=configs:{} seed={} nconfigs={}", what, case_seed, nconfigs), |out| {
            kinds_meta(&m, out);
            scen_configs(&m, &setups, what, &spec, out)
        });
    }
}

/// C11: interrupt at poll k
fn mode_interrupt(args: &Args) {
    let mut master = Rng::new(args.seed);
    let mut cfg = cfg_from(args);
    cfg.max_product = cfg.max_product.min(3000);
    let thorough = args.kv.get("thorough").map(|s| s == "1").unwrap_or(false);
    for i in 0..args.cases {
        let case_seed = master.next();
        if only_skip(args, i) {
            continue;
        }
        let mut r = Rng(case_seed);
        let m = gen_model(&mut r, &cfg);
        let setup = Setup::random(&mut r);
        let what = *r.pick(&["satisfy", "satisfy", "iterate", "optimise", "optimise"]);
        // a third of the plain satisfy cases become interrupted assumption solves (decided by a
        // separate generator, so that the other cases are unchanged)
        let what = if what == "satisfy" && Rng::new(case_seed ^ 0xA55).chance(1, 3) { "assume" } else { what };
        let spec = OptSpec { maximise: r.chance(1, 2), lus: r.chance(1, 2), objective: gen_objective(&mut r, &m) };
        let id = format!("{}-{}", args.seed, i);
        let desc = format!("scen=interrupt:{}{} seed={} {}", what, if what == "optimise" { if spec.lus { ":lus" } else { ":lsu" } } else { "" }, case_seed, setup.describe());
        run_case(&id, &desc, |out| {
            kinds_meta(&m, out);
            scen_interrupt(&m, &setup, what, &spec, &mut r, thorough, out)
        });
    }
}

fn gen_ops(r: &mut Rng, pool: &Model, nvars_initial: usize) -> Vec<Op> {
    let n = 3 + r.usize(8);
    let mut cons: Vec<Cons> = pool.cons.clone();
    let mut ops = vec![];
    let mut nvars = nvars_initial;
    // variables beyond `nvars_initial` of the pool model are introduced by NewVar ops, in order;
    // a constraint is only posted once all of its variables exist
    let mut pending_vars: Vec<VarDecl> = pool.vars[nvars_initial..].to_vec();
    for _ in 0..n {
        match r.below(10) {
            0 | 1 | 2 => {
                // post the next constraint whose variables exist
                if let Some(pos) = cons.iter().position(|c| {
                    let mut vs = vec![];
                    c.vars(&mut vs);
                    vs.iter().all(|v| *v < nvars)
                }) {
                    ops.push(Op::Post(cons.remove(pos)));
                } else if !pending_vars.is_empty() {
                    ops.push(Op::NewVar(pending_vars.remove(0)));
                    nvars += 1;
                }
            }
            3 => {
                if !pending_vars.is_empty() {
                    ops.push(Op::NewVar(pending_vars.remove(0)));
                    nvars += 1;
                } else {
                    ops.push(Op::Satisfy);
                }
            }
            4 => ops.push(Op::Satisfy),
            5 => {
                // a plain solve which is interrupted after a few polls (sometimes it finishes before)
                if r.chance(2, 3) {
                    ops.push(Op::SatisfyInterrupted(r.below(7)))
                } else {
                    ops.push(Op::Satisfy)
                }
            }
            6 => {
                let sub = Model { vars: pool.vars[..nvars].to_vec(), cons: vec![] };
                ops.push(Op::Assume(gen_assumptions(r, &sub), r.chance(2, 3)));
            }
            7 => ops.push(Op::Iterate(1 + r.usize(4))),
            _ => {
                let sub = Model { vars: pool.vars[..nvars].to_vec(), cons: vec![] };
                ops.push(Op::Optimise(OptSpec { maximise: r.chance(1, 2), lus: r.chance(1, 2), objective: gen_objective(r, &sub) }));
            }
        }
    }
    ops
}

/// C10: histories of API calls on one solver
fn mode_history(args: &Args) {
    let mut master = Rng::new(args.seed);
    let mut cfg = cfg_from(args);
    cfg.max_product = cfg.max_product.min(4000);
    for i in 0..args.cases {
        let case_seed = master.next();
        if only_skip(args, i) {
            continue;
        }
        let mut r = Rng(case_seed);
        let pool = gen_model(&mut r, &cfg);
        // literal variables and the first few variables exist from the start
        let nvars_initial = (2 + r.usize(3)).min(pool.vars.len());
        // literals used as reification literals must exist before the constraint is posted; keep it simple:
        // all variables that are literals are created up front by reordering is not possible (indices), so
        // only integer variables at the tail are deferred
        let mut k = pool.vars.len();
        while k > nvars_initial && pool.vars[k - 1].kind != VarKind::Lit {
            k -= 1;
        }
        let nvars_initial = k.max(nvars_initial);
        let initial = Model { vars: pool.vars[..nvars_initial].to_vec(), cons: vec![] };
        let ops = gen_ops(&mut r, &pool, nvars_initial);
        let setup = Setup::random(&mut r);
        let id = format!("{}-{}", args.seed, i);
        let desc = format!(
            "scen=history seed={} ops={} {}",
            case_seed,
            ops.iter().map(|o| o.describe()).collect::<Vec<_>>().join(","),
            setup.describe()
        );
        run_case(&id, &desc, |out| scen_history(&initial, &ops, &setup, out));
    }
}

/// C18: every variable selector x value selector (and the composite branchers) during real solves
fn mode_branchers(args: &Args) {
    use config::*;
    let mut master = Rng::new(args.seed);
    let mut cfg = cfg_from(args);
    cfg.max_product = cfg.max_product.min(5000);
    let grid = NUM_VARSEL * NUM_VALSEL;
    for i in 0..args.cases {
        let case_seed = master.next();
        if only_skip(args, i) {
            continue;
        }
        let mut r = Rng(case_seed);
        let m = gen_model(&mut r, &cfg);
        let mut setup = Setup::random(&mut r);
        // cycle deterministically through the grid; every 5th case uses a composite brancher
        let g = (i + args.seed as usize * 37) % grid;
        // every 5th and every 5th+3 case uses a composite brancher
        setup.bspec = match i % 5 {
            3 | 4 => match r.below(4) {
                0 => BrancherSpec::Default,
                1 => BrancherSpec::Dynamic(g % NUM_VARSEL, g / NUM_VARSEL, r.usize(NUM_VARSEL), r.usize(NUM_VALSEL), r.usize(100)),
                2 => BrancherSpec::Alternating(r.below(4) as u8, g % NUM_VARSEL, g / NUM_VARSEL),
                _ => BrancherSpec::Autonomous(g % NUM_VARSEL, g / NUM_VARSEL),
            },
            _ => BrancherSpec::Indep(g % NUM_VARSEL, g / NUM_VARSEL),
        };
        let scen = *r.pick(&["satisfy", "iterprefix", "iterprefix", "interrupted"]);
        // a brancher with state across solves (alternation, dynamic index, VSIDS backup selector) is
        // mostly run over several solves of one enumeration
        let composite = !matches!(setup.bspec, BrancherSpec::Indep(..));
        let scen = if composite && scen == "satisfy" { "iterprefix" } else { scen };
        let id = format!("{}-{}", args.seed, i);
        let desc = format!("scen={} seed={} {}", scen, case_seed, setup.describe());
        run_case(&id, &desc, |out| {
            kinds_meta(&m, out);
            match scen {
                "satisfy" => scen_satisfy(&m, &setup, out),
                "iterprefix" => scen_iterate(&m, &setup, if composite { 4 + r.usize(20) } else { 2 + r.usize(8) }, out),
                _ => {
                    let spec = OptSpec { maximise: false, lus: false, objective: View::of(0) };
                    scen_interrupt(&m, &setup, "satisfy", &spec, &mut r, false, out)
                }
            }
        });
    }
}

/// C17: explanation tap during real searches
fn mode_tap(args: &Args) {
    let mut master = Rng::new(args.seed);
    let mut cfg = cfg_from(args);
    cfg.max_product = cfg.max_product.min(1500);
    cfg.plant_pct = 35; // more conflicts
    for i in 0..args.cases {
        let case_seed = master.next();
        if only_skip(args, i) {
            continue;
        }
        let mut r = Rng(case_seed);
        let m = gen_model(&mut r, &cfg);
        let setup = Setup::random(&mut r);
        let k = if r.chance(1, 2) { 1 } else { 2 + r.usize(30) };
        let id = format!("{}-{}", args.seed, i);
        run_case(&id, &format!("scen=tap seed={} k={} {}", case_seed, k, setup.describe()), |out| {
            kinds_meta(&m, out);
            scen_tap(&m, &setup, k, out)
        });
    }
}

/// C17: one constraint per model, many assumption probes: every rule of every propagator is run and
/// explained in many non-root states (all sign combinations, fixed / unfixed arguments).
fn mode_probe(args: &Args) {
    let mut master = Rng::new(args.seed ^ 0x9B0BE);
    let mut cfg = cfg_from(args);
    cfg.min_cons = 1;
    cfg.max_cons = 1;
    cfg.min_vars = 3;
    cfg.max_vars = 4;
    cfg.max_width = 8;
    cfg.max_product = cfg.max_product.min(6000);
    cfg.plant_pct = 80;
    cfg.sym_pct = 0;
    cfg.straddle_pct = 60;
    let probes: usize = args.kv.get("probes").map(|s| s.parse().unwrap()).unwrap_or(120);
    for i in 0..args.cases {
        let case_seed = master.next();
        if only_skip(args, i) {
            continue;
        }
        let mut r = Rng(case_seed);
        let cumul_only = cfg.kinds.iter().all(|k| *k == "cumul");
        let m = if cumul_only && r.chance(3, 4) { model::gen_model_sched(&mut r, &cfg) } else { gen_model(&mut r, &cfg) };
        let mut setup = Setup::random(&mut r);
        setup.opts.resolver_uip = true;
        let id = format!("{}-{}", args.seed, i);
        run_case(&id, &format!("scen=tap:probe seed={} probes={} {}", case_seed, probes, setup.describe()), |out| {
            kinds_meta(&m, out);
            scen_tap_probes(&m, &setup, 1, probes, out)
        });
    }
}


/// propagation correspondence: every decision point of real solves against the fixpoint of
/// Model/Propagation.lean (C17 / C12 / C01)
fn mode_fix(args: &Args) {
    let mut master = Rng::new(args.seed ^ 0xF1C5);
    let mut cfg = cfg_from(args);
    cfg.max_product = cfg.max_product.min(3000);
    for i in 0..args.cases {
        let case_seed = master.next();
        if only_skip(args, i) {
            continue;
        }
        let mut r = Rng(case_seed);
        let single = r.chance(1, 2);
        if single {
            cfg.min_cons = 1;
            cfg.max_cons = 1;
        } else {
            cfg.min_cons = 1;
            cfg.max_cons = 4;
        }
        let m = gen_model(&mut r, &cfg);
        let setup = Setup::random(&mut r);
        let id = format!("{}-{}", args.seed, i);
        run_case(&id, &format!("scen=fix seed={} {}", case_seed, setup.describe()), |out| {
            kinds_meta(&m, out);
            scen_fix(&m, &setup, 1, out)
        });
    }
}

/// the whole search loop (no learning, no restarts) against Model/Search.lean
fn mode_nlsearch(args: &Args) {
    let mut master = Rng::new(args.seed ^ 0x5EA2C4);
    let mut cfg = cfg_from(args);
    cfg.max_product = cfg.max_product.min(2000);
    cfg.plant_pct = 30;
    for i in 0..args.cases {
        let case_seed = master.next();
        if only_skip(args, i) {
            continue;
        }
        let mut r = Rng(case_seed);
        let m = gen_model(&mut r, &cfg);
        let setup = Setup::random(&mut r);
        let id = format!("{}-{}", args.seed, i);
        run_case(&id, &format!("scen=nlsearch seed={} {}", case_seed, setup.describe()), |out| {
            kinds_meta(&m, out);
            scen_nlsearch(&m, &setup, out)
        });
    }
}

/// the domain store against Model/Assignments.lean
fn mode_asg(args: &Args) {
    let mut master = Rng::new(args.seed ^ 0xA55160);
    for i in 0..args.cases {
        let case_seed = master.next();
        if only_skip(args, i) {
            continue;
        }
        let mut r = Rng(case_seed);
        let id = format!("{}-{}", args.seed, i);
        run_case(&id, &format!("scen=asg seed={}", case_seed), |out| asg::case(&mut r, out));
    }
}

/// Long searches on larger structured models (n-queens with free auxiliary variables): too large for
/// the enumerating oracle, so every solution handed out is judged for totality (no unassigned
/// variable) and by the harness' own 64-bit reference evaluation of the constraints. Restarts are
/// frequent (low thresholds) and the composite branchers get half of the cases: their bookkeeping
/// across restarts, backtracks and solutions is what this stream is after.
fn mode_bigsearch(args: &Args) {
    let mut master = Rng::new(args.seed ^ 0xB165EA);
    for i in 0..args.cases {
        let case_seed = master.next();
        if only_skip(args, i) {
            continue;
        }
        let mut r = Rng(case_seed);
        // a quarter of the cases: pigeon-hole (n+1 pigeons, n holes: unsatisfiable); a quarter: n-queens
        // without auxiliary variables, enumerated completely (4 / 40 / 92 solutions for n = 6 / 7 / 8)
        let family = r.below(4);
        if family == 0 {
            let n = 3 + r.usize(3);
            let mut m = Model::default();
            for _ in 0..=n {
                m.vars.push(VarDecl { kind: VarKind::Interval, values: (0..n as i32).collect() });
            }
            m.cons.push(Cons::AllDiff((0..=n).map(|i| View { scale: 1, offset: 0, var: i }).collect()));
            let mut setup = Setup::random(&mut r);
            setup.opts.base_interval = 1 + r.below(3);
            setup.opts.min_conflicts = r.below(2);
            let id = format!("{}-{}", args.seed, i);
            run_case(&id, &format!("scen=bigsearch:pigeons n={} seed={} {}", n, case_seed, setup.describe()), |out| {
                scen_bigsearch(&m, &setup, usize::MAX, Some(0), out)
            });
            continue;
        }
        if family == 1 {
            let n = 6 + r.usize(3);
            let mut m = Model::default();
            for _ in 0..n {
                m.vars.push(VarDecl { kind: VarKind::Interval, values: (0..n as i32).collect() });
            }
            let q = |i: usize, off: i32| View { scale: 1, offset: off, var: i };
            m.cons.push(Cons::AllDiff((0..n).map(|i| q(i, 0)).collect()));
            m.cons.push(Cons::AllDiff((0..n).map(|i| q(i, i as i32)).collect()));
            m.cons.push(Cons::AllDiff((0..n).map(|i| q(i, -(i as i32))).collect()));
            let mut setup = Setup::random(&mut r);
            setup.opts.base_interval = 1 + r.below(3);
            setup.opts.min_conflicts = r.below(2);
            let expected = [4usize, 40, 92][n - 6];
            let id = format!("{}-{}", args.seed, i);
            run_case(&id, &format!("scen=bigsearch:queens-all n={} seed={} {}", n, case_seed, setup.describe()), |out| {
                scen_bigsearch(&m, &setup, usize::MAX, Some(expected), out)
            });
            continue;
        }
        let n = 6 + r.usize(5);
        let aux = 3 + r.usize(8);
        let mut m = Model::default();
        for _ in 0..n {
            m.vars.push(VarDecl { kind: VarKind::Interval, values: (0..n as i32).collect() });
        }
        for _ in 0..aux {
            m.vars.push(VarDecl { kind: VarKind::Interval, values: vec![0, 1] });
        }
        let q = |i: usize, off: i32| View { scale: 1, offset: off, var: i };
        m.cons.push(Cons::AllDiff((0..n).map(|i| q(i, 0)).collect()));
        m.cons.push(Cons::AllDiff((0..n).map(|i| q(i, i as i32)).collect()));
        m.cons.push(Cons::AllDiff((0..n).map(|i| q(i, -(i as i32))).collect()));
        m.cons.push(Cons::LinLe((n..n + aux).map(|x| View { scale: 1, offset: 0, var: x }).collect(), aux as i32 - 2));
        let mut setup = Setup::random(&mut r);
        setup.opts.resolver_uip = true;
        setup.opts.no_restarts = false;
        setup.opts.base_interval = 1 + r.below(3);
        setup.opts.min_conflicts = r.below(2);
        if r.chance(1, 2) {
            setup.bspec = config::BrancherSpec::Alternating(r.below(4) as u8, r.usize(3), r.usize(config::NUM_VALSEL));
        }
        let k = 1 + r.usize(5);
        let id = format!("{}-{}", args.seed, i);
        run_case(&id, &format!("scen=bigsearch n={} aux={} k={} seed={} {}", n, aux, k, case_seed, setup.describe()), |out| {
            scen_bigsearch(&m, &setup, k, None, out)
        });
    }
}

/// C19: DRCP text and literal definitions
fn mode_drcp(args: &Args) {
    let mut master = Rng::new(args.seed);
    for i in 0..args.cases {
        let case_seed = master.next();
        if only_skip(args, i) {
            continue;
        }
        let mut r = Rng(case_seed);
        let id = format!("{}-{}", args.seed, i);
        run_case(&id, &format!("scen=drcp seed={}", case_seed), |out| {
            drcp::case_write_read(&mut r, out);
            drcp::case_reader_soup(&mut r, out);
            drcp::case_lits_and_negation(&mut r, out);
        });
    }
}

/// C06: proof logging
fn mode_proof(args: &Args) {
    let mut master = Rng::new(args.seed);
    let mut cfg = cfg_from(args);
    cfg.max_product = cfg.max_product.min(600);
    cfg.plant_pct = 25;
    cfg.max_vars = cfg.max_vars.min(4);
    let dir = std::path::PathBuf::from(args.kv.get("dir").cloned().unwrap_or_else(|| format!("/verif/.work/proofs-{}", std::process::id())));
    std::fs::create_dir_all(&dir).unwrap();
    for i in 0..args.cases {
        let case_seed = master.next();
        if only_skip(args, i) {
            continue;
        }
        let mut r = Rng(case_seed);
        let mut m = gen_model(&mut r, &cfg);
        let mut setup = Setup::random(&mut r);
        setup.opts.resolver_uip = true; // proof logging is meaningful with learning
        let kind = r.below(3) as u8;
        // some literal variables become literals of a predicate over an earlier integer variable;
        // the equivalence is an ordinary (reified clause) constraint of the model
        let mut lit_defs: Vec<(usize, Atom)> = vec![];
        if r.chance(1, 2) {
            for (ri, d) in m.vars.iter().enumerate() {
                if d.kind != VarKind::Lit || !r.chance(2, 3) {
                    continue;
                }
                let candidates: Vec<usize> = (0..ri).filter(|x| m.vars[*x].kind != VarKind::Lit && m.vars[*x].values.len() >= 2).collect();
                if candidates.is_empty() {
                    continue;
                }
                let x = *r.pick(&candidates);
                let vals = &m.vars[x].values;
                let v = vals[1 + r.usize(vals.len() - 1)];
                let a = match r.below(3) {
                    0 => Atom::Ge(x, v),
                    1 => Atom::Le(x, v - 1),
                    _ => Atom::Eq(x, v),
                };
                lit_defs.push((ri, a));
            }
            // the definitions are the first constraints of the model (`litdefs n` tells the checker)
            for (k, (ri, a)) in lit_defs.iter().enumerate() {
                let id = |x: usize| View { scale: 1, offset: 0, var: x };
                let inner = match *a {
                    Atom::Ge(x, v) => Cons::LinLe(vec![View { scale: -1, offset: 0, var: x }], -v),
                    Atom::Le(x, v) => Cons::LinLe(vec![id(x)], v),
                    Atom::Eq(x, v) => Cons::LinEq(vec![id(x)], v),
                    Atom::Ne(x, v) => Cons::LinNe(vec![id(x)], v),
                };
                m.cons.insert(k, Cons::Reif(Atom::Ge(*ri, 1), Box::new(inner)));
            }
        }
        // constraints which reason with disequalities over a defined literal ([r != 0] / [r != 1] are
        // written to the proof through a separate arm of the substitution)
        for (ri, _) in &lit_defs {
            if !r.chance(1, 2) {
                continue;
            }
            let others: Vec<usize> = (0..m.vars.len()).filter(|x| x != ri).collect();
            let y = *r.pick(&others);
            let yv = *r.pick(&m.vars[y].values);
            let rv = View { scale: 1, offset: 0, var: *ri };
            let yw = View { scale: 1, offset: 0, var: y };
            let extra = match r.below(4) {
                0 => Cons::Clause(vec![Atom::Eq(*ri, r.below(2) as i32), if r.chance(1, 2) { Atom::Ne(y, yv) } else { Atom::Le(y, yv) }]),
                1 => Cons::LinNe(vec![rv, yw], yv + r.below(2) as i32),
                2 => Cons::AllDiff(vec![rv, View { scale: 1, offset: -yv + r.below(2) as i32, var: y }]),
                _ => Cons::Clause(vec![Atom::Ne(*ri, r.below(2) as i32), Atom::Ne(y, yv)]),
            };
            let at = lit_defs.len() + r.usize(m.cons.len() - lit_defs.len() + 1);
            m.cons.insert(at, extra);
        }
        config::LIT_DEFS.with(|d| *d.borrow_mut() = lit_defs.clone());
        let opt = if r.chance(1, 3) {
            // the objective is not a literal of a predicate: its bound would be concluded as an atom over
            // the predicate's variable, which the checker cannot relate to the objective
            let mut ov = r.usize(m.vars.len());
            if lit_defs.iter().any(|(ri, _)| *ri == ov) {
                ov = 0;
            }
            Some(OptSpec { maximise: r.chance(1, 2), lus: r.chance(1, 4), objective: View::of(ov) })
        } else {
            None
        };
        let id = format!("{}-{}", args.seed, i);
        let desc = format!(
            "scen=proof:{}:{} seed={} {}",
            ["scaffold", "full", "hints"][kind as usize],
            match &opt {
                None => "satisfy".to_string(),
                Some(s) => format!("{}:{}", if s.lus { "lus" } else { "lsu" }, if s.maximise { "max" } else { "min" }),
            },
            case_seed,
            setup.describe()
        );
        run_case(&id, &desc, |out| {
            kinds_meta(&m, out);
            if !lit_defs.is_empty() {
                out.meta(format!("literals-of-predicates {}", lit_defs.len()));
            }
            scen_proof(&m, &setup, kind, opt.as_ref(), &dir, out)
        });
        config::LIT_DEFS.with(|d| d.borrow_mut().clear());
    }
    if !args.kv.contains_key("dir") {
        let _ = std::fs::remove_dir_all(&dir);
    }
}

/// One hand-written case: `pharness one --scen satisfy --model "<text>" [--opts ".."] [--brancher ".."]
/// [--style N] [--cumopt I] [--assume "<atoms>"] [--obj "<view>"] [--max 0|1] [--lus 0|1] [--id name]`
fn mode_one(args: &Args) {
    let cumopt = CumOpt::from_index(args.kv.get("cumopt").map(|s| s.parse().unwrap()).unwrap_or(4 + 6));
    let text = args.kv.get("model").expect("--model");
    let m = Toks::new(text).model(cumopt);
    let setup = Setup {
        opts: args.kv.get("opts").map(|s| config::Opts::parse(s)).unwrap_or_default(),
        bspec: args.kv.get("brancher").map(|s| config::BrancherSpec::parse(s)).unwrap_or(config::BrancherSpec::Default),
        style_seed: args.kv.get("style").map(|s| s.parse().unwrap()).unwrap_or(0),
    };
    let scen = args.kv.get("scen").cloned().unwrap_or_else(|| "satisfy".to_string());
    let id = args.kv.get("id").cloned().unwrap_or_else(|| "one".to_string());
    if args.kv.get("wide").map(|s| s != "0").unwrap_or(false) {
        config::WIDE_DECL.store(true, std::sync::atomic::Ordering::Relaxed);
    }
    let desc = format!("scen={} {}", scen, setup.describe());
    run_case(&id, &desc, |out| {
        kinds_meta(&m, out);
        match scen.as_str() {
            "satisfy" => scen_satisfy(&m, &setup, out),
            "iterate" => scen_iterate(&m, &setup, 100000, out),
            "satisfy2" => {
                // post everything, then two plain solves on the same solver
                let initial = Model { vars: m.vars.clone(), cons: vec![] };
                let mut ops: Vec<Op> = m.cons.iter().cloned().map(Op::Post).collect();
                ops.push(Op::Satisfy);
                ops.push(Op::Satisfy);
                scen_history(&initial, &ops, &setup, out)
            }
            "tap" => match args.kv.get("probes") {
                Some(p) => scen_tap_probes(&m, &setup, args.kv.get("k").map(|s| s.parse().unwrap()).unwrap_or(1), p.parse().unwrap(), out),
                None => scen_tap(&m, &setup, args.kv.get("k").map(|s| s.parse().unwrap()).unwrap_or(1), out),
            },
            "tapdump" => {
                use pumpkin_solver::verif_hooks::*;
                tap_enable(true);
                let _ = tap_drain();
                scen_iterate(&m, &setup, 100000, out);
                tap_enable(false);
                for r in tap_drain() {
                    out.meta(format!(
                        "{:?} {} tag={:?} lvl={} pos={} {} <- {}",
                        r.kind,
                        r.propagator,
                        r.tag,
                        r.level,
                        r.trail_position,
                        r.predicate.map(|p| p.to_string()).unwrap_or("FALSE".into()),
                        r.reason.iter().map(|p| p.to_string()).collect::<Vec<_>>().join(" & ")
                    ));
                }
            }
            "optimise" => {
                let objective = Toks::new(args.kv.get("obj").expect("--obj")).view();
                let spec = OptSpec {
                    maximise: args.kv.get("max").map(|s| s == "1").unwrap_or(false),
                    lus: args.kv.get("lus").map(|s| s == "1").unwrap_or(false),
                    objective,
                };
                let _ = scen_optimise(&m, &setup, &spec, None, out);
            }
            "proof" => {
                // --kind 0|1|2 (scaffold, full, hints); optional --obj/--max/--lus for optimisation
                let kind: u8 = args.kv.get("kind").map(|s| s.parse().unwrap()).unwrap_or(2);
                let opt = args.kv.get("obj").map(|o| OptSpec {
                    maximise: args.kv.get("max").map(|s| s == "1").unwrap_or(false),
                    lus: args.kv.get("lus").map(|s| s == "1").unwrap_or(false),
                    objective: Toks::new(o).view(),
                });
                let mut setup2 = Setup { opts: setup.opts.clone(), bspec: setup.bspec.clone(), style_seed: setup.style_seed };
                setup2.opts.resolver_uip = true;
                // --litdefs N: the first N constraints define literals of predicates (as mode `proof` writes them)
                let n_defs: usize = args.kv.get("litdefs").map(|s| s.parse().unwrap()).unwrap_or(0);
                let defs: Vec<(usize, Atom)> = m.cons[..n_defs]
                    .iter()
                    .map(|c| match c {
                        Cons::Reif(Atom::Ge(ri, 1), inner) => match &**inner {
                            Cons::LinLe(ts, c) if ts.len() == 1 && ts[0].scale == -1 => (*ri, Atom::Ge(ts[0].var, -c)),
                            Cons::LinLe(ts, c) if ts.len() == 1 && ts[0].scale == 1 => (*ri, Atom::Le(ts[0].var, *c)),
                            Cons::LinEq(ts, c) if ts.len() == 1 && ts[0].scale == 1 => (*ri, Atom::Eq(ts[0].var, *c)),
                            Cons::LinNe(ts, c) if ts.len() == 1 && ts[0].scale == 1 => (*ri, Atom::Ne(ts[0].var, *c)),
                            _ => panic!("--litdefs: not a definition"),
                        },
                        _ => panic!("--litdefs: not a definition"),
                    })
                    .collect();
                config::LIT_DEFS.with(|d| *d.borrow_mut() = defs);
                let dir = std::path::PathBuf::from(format!("/verif/.work/proofs-{}", std::process::id()));
                std::fs::create_dir_all(&dir).unwrap();
                scen_proof(&m, &setup2, kind, opt.as_ref(), &dir, out);
                config::LIT_DEFS.with(|d| d.borrow_mut().clear());
                let _ = std::fs::remove_dir_all(&dir);
            }
            "interrupted-post" => {
                // post all constraints but the last, a solve interrupted at poll --stop, post the last
                // constraint, solve: the answers are judged against the accumulated model
                let k = m.cons.len().saturating_sub(1);
                let initial = Model { vars: m.vars.clone(), cons: vec![] };
                let mut ops: Vec<Op> = m.cons[..k].iter().cloned().map(Op::Post).collect();
                ops.push(Op::SatisfyInterrupted(args.kv.get("stop").map(|s| s.parse().unwrap()).unwrap_or(1)));
                ops.extend(m.cons[k..].iter().cloned().map(Op::Post));
                ops.push(Op::Satisfy);
                scen_history(&initial, &ops, &setup, out)
            }
            "assume" => {
                let atoms = Toks::new(args.kv.get("assume").expect("--assume")).atoms();
                scen_assume(&m, &setup, &[(atoms, true)], out)
            }
            other => panic!("unknown scenario {}", other),
        }
    });
}

/// C14: the real byte-level DIMACS parser against the Lean model, on generated files.
fn mode_dimacs(args: &Args) {
    let mut master = Rng::new(args.seed ^ 0xD1AC5);
    for i in 0..args.cases {
        let case_seed = master.next();
        if only_skip(args, i) {
            continue;
        }
        let mut r = Rng(case_seed);
        let bytes = dimacs_mode::gen_file(&mut r);
        let chunk_seed = if r.chance(1, 2) { Some(r.next()) } else { None };
        let id = format!("{}-{}", args.seed, i);
        let wcnf = args.kv.get("wcnf").map(|s| s == "1").unwrap_or(false);
        let bytes = if wcnf { dimacs_mode::gen_wcnf(&mut r) } else { bytes };
        run_case(&id, &format!("scen={} seed={} chunks={}", if wcnf { "wcnf" } else { "dimacs" }, case_seed, chunk_seed.is_some()), |out| {
            let res = if wcnf { dimacs_mode::run_real_wcnf(&bytes, chunk_seed) } else { dimacs_mode::run_real(&bytes, chunk_seed) };
            let toks: Vec<String> = bytes.iter().map(|b| b.to_string()).collect();
            out.meta(format!("text {:?}", String::from_utf8_lossy(&bytes)));
            out.push(format!("{} {} {} :: {}", if wcnf { "wcnf" } else { "dimacs" }, bytes.len(), toks.join(" "), res));
        });
    }
}

fn main() {
    install_panic_hook();
    let args = parse_args();
    if args.kv.get("tapdump").map(|s| s == "1").unwrap_or(false) {
        pumpkin_solver::verif_hooks::tap_enable(true);
    }
    if args.kv.get("eqassume").map(|s| s == "1").unwrap_or(false) {
        config::EQ_ASSUME.store(true, std::sync::atomic::Ordering::Relaxed);
    }
    if args.kv.get("nolearning").map(|s| s == "1").unwrap_or(false) {
        config::FORCE_NOLEARNING.store(true, std::sync::atomic::Ordering::Relaxed);
    }
    if args.kv.get("allow-subset-random").map(|s| s == "1").unwrap_or(false) {
        config::ALLOW_SUBSET_RANDOM.store(true, std::sync::atomic::Ordering::Relaxed);
    }
    match args.mode.as_str() {
        "answers" => mode_answers(&args),
        "one" => mode_one(&args),
        "bounds" => mode_bounds(&args),
        "tap" => mode_tap(&args),
        "drcp" => mode_drcp(&args),
        "dimacs" => mode_dimacs(&args),
        "probe" => mode_probe(&args),
        "fix" => mode_fix(&args),
        "nlsearch" => mode_nlsearch(&args),
        "asg" => mode_asg(&args),
        "bigsearch" => mode_bigsearch(&args),
        "proof" => mode_proof(&args),
        "configs" => mode_configs(&args),
        "interrupt" => mode_interrupt(&args),
        "history" => mode_history(&args),
        "branchers" => mode_branchers(&args),
        "genonly" => {
            let mut master = Rng::new(args.seed);
            let cfg = cfg_from(&args);
            for _ in 0..args.cases {
                let mut r = Rng(master.next());
                let m = gen_model(&mut r, &cfg);
                println!("model {}", m.emit());
            }
        }
        other => {
            eprintln!("unknown mode {}", other);
            std::process::exit(2);
        }
    }
}
