//! C19: DRCP writer/reader and literal definitions round trip on random step sequences.

use std::cell::RefCell;
use std::io::Write;
use std::num::NonZero;
use std::panic::catch_unwind;
use std::panic::AssertUnwindSafe;
use std::rc::Rc;

use drcp_format::reader::ProofReader;
use drcp_format::steps::Conclusion;
use drcp_format::steps::Step;
use drcp_format::writer::ProofWriter;
use drcp_format::AtomicConstraint;
use drcp_format::BoolAtomicConstraint;
use drcp_format::Comparison;
use drcp_format::Format;
use drcp_format::IntAtomicConstraint;
use drcp_format::LiteralDefinitions;

use crate::rng::Rng;
use crate::scen::Out;

#[derive(Clone)]
struct SharedBuf(Rc<RefCell<Vec<u8>>>);

impl Write for SharedBuf {
    fn write(&mut self, buf: &[u8]) -> std::io::Result<usize> {
        self.0.borrow_mut().extend_from_slice(buf);
        Ok(buf.len())
    }
    fn flush(&mut self) -> std::io::Result<()> {
        Ok(())
    }
}

#[derive(Clone, Debug, PartialEq)]
enum S {
    Inf { id: u64, prem: Vec<i32>, prop: Option<i32>, tag: Option<u32>, label: Option<String> },
    Nog { id: u64, lits: Vec<i32>, hints: Option<Vec<u64>> },
    Del { id: u64 },
    Unsat,
    Opt(i32),
}

impl S {
    fn describe(&self) -> String {
        match self {
            S::Inf { id, prem, prop, tag, label } => format!(
                "I {} {} {} {} {} {}",
                id,
                prem.len(),
                prem.iter().map(|p| p.to_string()).collect::<Vec<_>>().join(" "),
                prop.map(|p| format!("P {}", p)).unwrap_or("-".into()),
                tag.map(|t| format!("T {}", t)).unwrap_or("-".into()),
                label.clone().map(|l| format!("L {}", l)).unwrap_or("-".into())
            ),
            S::Nog { id, lits, hints } => format!(
                "N {} {} {} {}",
                id,
                lits.len(),
                lits.iter().map(|p| p.to_string()).collect::<Vec<_>>().join(" "),
                hints
                    .clone()
                    .map(|h| format!("H {} {}", h.len(), h.iter().map(|x| x.to_string()).collect::<Vec<_>>().join(" ")))
                    .unwrap_or("-".into())
            ),
            S::Del { id } => format!("D {}", id),
            S::Unsat => "U".into(),
            S::Opt(l) => format!("O {}", l),
        }
        .split_whitespace()
        .collect::<Vec<_>>()
        .join(" ")
    }
}

fn lit(r: &mut Rng) -> i32 {
    let v = match r.below(10) {
        0 => i32::MAX,
        1 => i32::MIN + 1,
        2 => i32::MIN,
        3 => 1,
        4 => -1,
        _ => r.i32(-40, 40),
    };
    if v == 0 {
        7
    } else {
        v
    }
}

fn lits(r: &mut Rng) -> Vec<i32> {
    let n = match r.below(4) {
        0 => 0,
        _ => r.usize(5),
    };
    (0..n).map(|_| lit(r)).collect()
}

fn label(r: &mut Rng) -> String {
    let first = b"abcXYZ_";
    let rest = b"abcXYZ_019";
    let mut s = String::new();
    s.push(first[r.usize(first.len())] as char);
    for _ in 0..r.usize(6) {
        s.push(rest[r.usize(rest.len())] as char);
    }
    s
}

fn nz(v: i32) -> NonZero<i32> {
    NonZero::new(v).unwrap()
}

fn step_of(step: &Step<'_, Vec<NonZero<i32>>, NonZero<i32>, Vec<NonZero<u64>>>) -> S {
    match step {
        Step::Inference(i) => S::Inf {
            id: i.id.get(),
            prem: i.premises.iter().map(|p| p.get()).collect(),
            prop: i.propagated.map(|p| p.get()),
            tag: i.hint_constraint_id.map(|t| t.get()),
            label: i.hint_label.map(|l| l.to_string()),
        },
        Step::Nogood(n) => S::Nog {
            id: n.id.get(),
            lits: n.literals.iter().map(|p| p.get()).collect(),
            hints: n.hints.as_ref().map(|h| h.iter().map(|x| x.get()).collect()),
        },
        Step::Delete(d) => S::Del { id: d.id.get() },
        Step::Conclusion(Conclusion::Unsatisfiable) => S::Unsat,
        Step::Conclusion(Conclusion::Optimal(l)) => S::Opt(l.get()),
    }
}

pub fn case_write_read(r: &mut Rng, out: &mut Out) {
    let buf = SharedBuf(Rc::new(RefCell::new(vec![])));
    let identity = |l: NonZero<i32>| l;
    let mut expected: Vec<S> = vec![];
    {
        let mut w = ProofWriter::new(Format::Text, buf.clone(), identity);
        let n = 1 + r.usize(8);
        let mut nogood_ids: Vec<u64> = vec![];
        for _ in 0..n {
            match r.below(5) {
                0 | 1 => {
                    let prem = lits(r);
                    let prop = if r.chance(1, 2) { Some(lit(r)) } else { None };
                    let tag = if r.chance(1, 2) { Some(if r.chance(1, 6) { u32::MAX } else { 1 + r.below(50) as u32 }) } else { None };
                    let lab = if r.chance(1, 2) { Some(label(r)) } else { None };
                    let id = w
                        .log_inference(tag.and_then(NonZero::new), lab.as_deref(), prem.iter().map(|p| nz(*p)), prop.map(nz))
                        .unwrap();
                    expected.push(S::Inf { id: id.get(), prem, prop, tag, label: lab });
                }
                2 | 3 => {
                    let ls = lits(r);
                    let hints: Option<Vec<u64>> = match r.below(3) {
                        0 => None,
                        1 => Some(vec![]),
                        _ => Some((0..1 + r.usize(3)).map(|_| 1 + r.below(30)).collect()),
                    };
                    let id = w
                        .log_nogood_clause(ls.iter().map(|p| nz(*p)), hints.clone().map(|h| h.into_iter().map(|x| NonZero::new(x).unwrap())))
                        .unwrap();
                    nogood_ids.push(id.get());
                    expected.push(S::Nog { id: id.get(), lits: ls, hints });
                }
                _ => {
                    let id = if nogood_ids.is_empty() { 1 + r.below(9) } else { *r.pick(&nogood_ids) };
                    w.log_deletion(NonZero::new(id).unwrap()).unwrap();
                    expected.push(S::Del { id });
                }
            }
        }
        if r.chance(1, 2) {
            let _ = w.unsat().unwrap();
            expected.push(S::Unsat);
        } else {
            let l = lit(r);
            let _ = w.optimal(nz(l)).unwrap();
            expected.push(S::Opt(l));
        }
    }
    let bytes = buf.0.borrow().clone();
    let text = String::from_utf8_lossy(&bytes).to_string();
    let lines: Vec<&str> = text.lines().collect();
    if lines.len() != expected.len() {
        out.push(format!("bad drcp-line-count expected={} got={}", expected.len(), lines.len()));
    }
    for (s, l) in expected.iter().zip(lines.iter()) {
        out.push(format!("drcpw {} :: {}", s.describe(), l));
    }
    // read the whole file back with the real reader
    let mut reader = ProofReader::new(&bytes[..], identity);
    let mut k = 0;
    loop {
        match reader.next_step() {
            Ok(Some(step)) => {
                let got = step_of(&step);
                if k >= expected.len() || got != expected[k] {
                    out.push(format!("bad drcp-readback step={} expected={:?} got={:?}", k, expected.get(k), got).replace(' ', "_"));
                }
                k += 1;
            }
            Ok(None) => break,
            Err(e) => {
                out.push(format!("bad drcp-readback-error step={} line={:?} error={}", k, lines.get(k), e).replace(' ', "_"));
                break;
            }
        }
    }
    if k != expected.len() {
        out.push(format!("bad drcp-readback-count expected={} got={}", expected.len(), k));
    }
}

/// lines that are not (necessarily) well-formed: the real reader's verdict vs the model's
pub fn case_reader_soup(r: &mut Rng, out: &mut Out) {
    let alphabet = [
        "i", "n", "d", "c", "UNSAT", "0", "1", "-1", "5", "-7", "2147483647", "-2147483648", "2147483648", "c:3", "c:0", "l:ab",
        "l:9a", "l:_x1", "c:4294967295", "c:4294967296", "18446744073709551615", "18446744073709551616", "x", "+3",
    ];
    for _ in 0..12 {
        let n = 1 + r.usize(7);
        let mut toks: Vec<&str> = vec![];
        // bias: start with a step keyword and an id most of the time
        if r.chance(4, 5) {
            toks.push(["i", "n", "d", "c"][r.usize(4)]);
            if r.chance(4, 5) {
                toks.push(["1", "7", "42", "0", "-3"][r.usize(5)]);
            }
        }
        for _ in 0..n {
            toks.push(alphabet[r.usize(alphabet.len())]);
        }
        let sep = if r.chance(1, 15) { "  " } else { " " };
        let line = toks.join(sep);
        if line.trim().is_empty() || line.contains(" :: ") {
            continue;
        }
        let identity = |l: NonZero<i32>| l;
        let data = format!("{}\n", line);
        let mut reader = ProofReader::new(data.as_bytes(), identity);
        match reader.next_step() {
            Ok(Some(step)) => out.push(format!("drcpr ok {} :: {}", step_of(&step).describe(), line)),
            Ok(None) => {}
            Err(_) => out.push(format!("drcpr err :: {}", line)),
        }
    }
}

fn atomic(r: &mut Rng) -> AtomicConstraint<String> {
    let name = label(r);
    if r.chance(1, 4) {
        AtomicConstraint::Bool(BoolAtomicConstraint { name, value: r.chance(1, 2) })
    } else {
        let comparison = match r.below(4) {
            0 => Comparison::GreaterThanEqual,
            1 => Comparison::LessThanEqual,
            2 => Comparison::Equal,
            _ => Comparison::NotEqual,
        };
        let value = match r.below(8) {
            0 => i64::MAX,
            1 => i64::MIN,
            2 => i64::MAX - 1,
            3 => i64::MIN + 1,
            _ => r.range(-1000, 1000),
        };
        AtomicConstraint::Int(IntAtomicConstraint { name, comparison, value })
    }
}

pub fn case_lits_and_negation(r: &mut Rng, out: &mut Out) {
    // literal definitions: write, parse, compare
    let mut defs: LiteralDefinitions<String> = LiteralDefinitions::default();
    let mut expected: Vec<(u32, Vec<AtomicConstraint<String>>)> = vec![];
    let n = 1 + r.usize(6);
    for i in 0..n {
        let code = if r.chance(1, 8) { u32::MAX - i as u32 } else { 1 + i as u32 * (1 + r.below(3) as u32) + r.below(2) as u32 * 100 };
        if expected.iter().any(|e| e.0 == code) {
            continue;
        }
        let k = 1 + r.usize(2);
        let atomics: Vec<AtomicConstraint<String>> = (0..k).map(|_| atomic(r)).collect();
        for a in &atomics {
            defs.add(NonZero::new(code).unwrap(), a.clone());
        }
        expected.push((code, atomics));
    }
    let mut bytes: Vec<u8> = vec![];
    defs.write(&mut bytes).unwrap();
    match LiteralDefinitions::<String>::parse(&bytes[..]) {
        Ok(parsed) => {
            let mut ok = 0;
            for (code, atomics) in &expected {
                let got = parsed.get(NonZero::new(*code).unwrap());
                if got != Some(&atomics[..]) {
                    out.push(format!("bad lits-roundtrip code={} expected={:?} got={:?}", code, atomics, got).replace(' ', "_"));
                } else {
                    ok += 1;
                }
            }
            out.push(format!("litsok {}", ok));
        }
        Err(e) => out.push(
            format!("bad lits-parse-error {} text={:?}", e, String::from_utf8_lossy(&bytes)).replace(' ', "_"),
        ),
    }
    // exact correspondence with Model/Lits.lean: the written file as is, and perturbed / hand-made
    // variants (other white space, signs, leading zeros, trailing junk, bad names, blank lines)
    {
        let mut variants: Vec<Vec<u8>> = vec![bytes.clone()];
        let alphabet: &[u8] = b"[]=!<>- +_xX09tf \t\n";
        for _ in 0..3 {
            let mut v = bytes.clone();
            if v.is_empty() {
                break;
            }
            match r.below(4) {
                0 => {
                    let i = r.usize(v.len());
                    v[i] = *r.pick(alphabet);
                }
                1 => {
                    let i = r.usize(v.len());
                    let _ = v.remove(i);
                }
                2 => {
                    let i = r.usize(v.len() + 1);
                    v.insert(i, *r.pick(alphabet));
                }
                _ => {
                    let extra: [&[u8]; 6] = [b"\n\n", b"  7 [y >= +3] \n", b"007 [_a == true] junk\n", b"5 [b1 != -0]\n", b"4294967296 [x <= 1]\n", b"3 [x == true][y <= 2]\n"];
                    let i = r.usize(extra.len());
                    v.extend_from_slice(extra[i]);
                }
            }
            variants.push(v);
        }
        for v in variants {
            if !v.is_ascii() {
                continue;
            }
            let res = match LiteralDefinitions::<String>::parse(&v[..]) {
                Err(_) => "err".to_string(),
                Ok(parsed) => {
                    // the codes that can occur: all numbers in the text
                    let text = String::from_utf8_lossy(&v).into_owned();
                    let mut codes: Vec<u32> = text
                        .split(|c: char| !c.is_ascii_digit())
                        .filter_map(|t| t.parse::<u32>().ok())
                        .filter(|c| *c != 0)
                        .collect();
                    codes.sort();
                    codes.dedup();
                    let mut s = String::from("ok");
                    for c in codes {
                        if let Some(atomics) = parsed.get(NonZero::new(c).unwrap()) {
                            s.push_str(&format!(" {} {}", c, atomics.len()));
                            for a in atomics {
                                match a {
                                    AtomicConstraint::Int(i) => s.push_str(&format!(
                                        " i {} {} {}",
                                        i.name,
                                        match i.comparison {
                                            Comparison::GreaterThanEqual => "ge",
                                            Comparison::LessThanEqual => "le",
                                            Comparison::Equal => "eq",
                                            Comparison::NotEqual => "ne",
                                        },
                                        i.value
                                    )),
                                    AtomicConstraint::Bool(b) => s.push_str(&format!(" b {} {}", b.name, b.value)),
                                }
                            }
                        }
                    }
                    s
                }
            };
            let toks: Vec<String> = v.iter().map(|b| b.to_string()).collect();
            out.push(format!("litsfile {} {} :: {}", v.len(), toks.join(" "), res));
        }
    }
    // deterministic output: writing twice gives the same bytes, in code order
    let mut bytes2: Vec<u8> = vec![];
    defs.write(&mut bytes2).unwrap();
    if bytes != bytes2 {
        out.push("bad lits-write-not-deterministic");
    }
    // negating twice
    for _ in 0..6 {
        let a = atomic(r);
        let b = a.clone();
        match catch_unwind(AssertUnwindSafe(move || !(!b))) {
            Ok(c) => {
                if c == a {
                    out.push("negok");
                } else {
                    out.push(format!("bad double-negation {:?} -> {:?}", a, c).replace(' ', "_"));
                }
            }
            Err(_) => out.push(format!("panic negation {}", format!("{:?} {}", a, crate::scen::last_panic()).replace(' ', "_"))),
        }
    }
}
