//! Building a generated model inside the real solver through the public API.

use std::num::NonZero;

use pumpkin_solver::constraints;
use pumpkin_solver::constraints::Constraint;
use pumpkin_solver::constraints::NegatableConstraint;
use pumpkin_solver::options::CumulativeExplanationType;
use pumpkin_solver::options::CumulativeOptions;
use pumpkin_solver::options::CumulativePropagationMethod;
use pumpkin_solver::predicate;
use pumpkin_solver::predicates::Predicate;
use pumpkin_solver::variables::AffineView;
use pumpkin_solver::variables::DomainId;
use pumpkin_solver::variables::Literal;
use pumpkin_solver::variables::TransformableVariable;
use pumpkin_solver::ConstraintOperationError;
use pumpkin_solver::Solver;

use crate::model::*;

pub type V = AffineView<DomainId>;

#[derive(Debug)]
pub struct Vars {
    pub ids: Vec<DomainId>,
    pub lits: Vec<Option<Literal>>,
}

impl Vars {
    pub fn view(&self, w: &View) -> V {
        self.ids[w.var].scaled(w.scale).offset(w.offset)
    }
    pub fn views(&self, ws: &[View]) -> Vec<V> {
        ws.iter().map(|w| self.view(w)).collect()
    }
    pub fn pred(&self, a: &Atom) -> Predicate {
        match *a {
            Atom::Ge(x, v) => {
                let d = self.ids[x];
                predicate!(d >= v)
            }
            Atom::Le(x, v) => {
                let d = self.ids[x];
                predicate!(d <= v)
            }
            Atom::Ne(x, v) => {
                let d = self.ids[x];
                predicate!(d != v)
            }
            Atom::Eq(x, v) => {
                let d = self.ids[x];
                predicate!(d == v)
            }
        }
    }
    /// the literal denoted by an atom `[x >= 1]` / `[x <= 0]` over a literal variable
    pub fn lit(&self, a: &Atom) -> Literal {
        match *a {
            Atom::Ge(x, 1) => self.lits[x].expect("literal variable"),
            Atom::Le(x, 0) => !self.lits[x].expect("literal variable"),
            _ => panic!("harness: atom {:?} is not a literal", a),
        }
    }
    pub fn is_lit_atom(&self, a: &Atom) -> bool {
        match *a {
            Atom::Ge(x, 1) | Atom::Le(x, 0) => self.lits[x].is_some(),
            _ => false,
        }
    }
}

pub fn declare_var(solver: &mut Solver, vars: &mut Vars, d: &VarDecl, name: Option<String>, shuffle_seed: u64) {
    match d.kind {
        VarKind::Interval => {
            let (lo, hi) = if crate::config::WIDE_DECL.load(std::sync::atomic::Ordering::Relaxed) {
                (d.lb().min(-2_000_000_000), d.ub().max(2_000_000_000))
            } else {
                (d.lb(), d.ub())
            };
            let id = match name {
                Some(n) => solver.new_named_bounded_integer(lo, hi, n),
                None => solver.new_bounded_integer(lo, hi),
            };
            vars.ids.push(id);
            vars.lits.push(None);
        }
        VarKind::Sparse => {
            // the API accepts the values in any order
            let mut values = d.values.clone();
            let mut r = crate::rng::Rng::new(shuffle_seed);
            if shuffle_seed % 2 == 1 {
                r.shuffle(&mut values);
            }
            let id = match name {
                Some(n) => solver.new_named_sparse_integer(values, n),
                None => solver.new_sparse_integer(values),
            };
            vars.ids.push(id);
            vars.lits.push(None);
        }
        VarKind::Lit => {
            let index = vars.ids.len();
            let def = crate::config::LIT_DEFS.with(|d| d.borrow().iter().find(|(r, _)| *r == index).map(|(_, a)| *a));
            let lit = match (def, name) {
                // the literal of a predicate over an earlier variable (as the FlatZinc front-end
                // creates for reified set membership): the solver links the two itself
                (Some(a), _) if a.var() < index => solver.new_literal_for_predicate(vars.pred(&a)),
                (_, Some(n)) => solver.new_named_literal(n),
                (_, None) => solver.new_literal(),
            };
            let id = DomainId::new(vars.ids.len() as u32 + 1);
            vars.ids.push(id);
            vars.lits.push(Some(lit));
        }
    }
}

pub fn cumulative_options(o: &CumOpt) -> CumulativeOptions {
    let method = match o.method {
        0 => CumulativePropagationMethod::TimeTablePerPoint,
        1 => CumulativePropagationMethod::TimeTablePerPointIncremental,
        2 => CumulativePropagationMethod::TimeTablePerPointIncrementalSynchronised,
        3 => CumulativePropagationMethod::TimeTableOverInterval,
        4 => CumulativePropagationMethod::TimeTableOverIntervalIncremental,
        _ => CumulativePropagationMethod::TimeTableOverIntervalIncrementalSynchronised,
    };
    let expl = match o.explanation {
        0 => CumulativeExplanationType::Naive,
        1 => CumulativeExplanationType::BigStep,
        _ => CumulativeExplanationType::Pointwise,
    };
    CumulativeOptions::new(o.holes, expl, o.sequence, method, o.incremental_backtracking)
}

#[derive(Clone, Copy)]
pub enum Mode {
    Post,
    Implied(Literal),
    Reif(Literal),
}

type R = Result<(), ConstraintOperationError>;
type Tag = Option<NonZero<u32>>;

fn act<C: Constraint>(s: &mut Solver, c: C, mode: Mode, tag: Tag) -> R {
    let poster = s.add_constraint(c);
    let poster = match tag {
        Some(t) => poster.with_tag(t),
        None => poster,
    };
    match mode {
        Mode::Post => poster.post(),
        Mode::Implied(l) => poster.implied_by(l),
        Mode::Reif(_) => panic!("harness: reify on a non-negatable constraint"),
    }
}

fn act_neg<C: NegatableConstraint>(s: &mut Solver, c: C, mode: Mode, tag: Tag) -> R {
    let poster = s.add_constraint(c);
    let poster = match tag {
        Some(t) => poster.with_tag(t),
        None => poster,
    };
    match mode {
        Mode::Post => poster.post(),
        Mode::Implied(l) => poster.implied_by(l),
        Mode::Reif(l) => poster.reify(l),
    }
}

fn with_negs<C: NegatableConstraint>(s: &mut Solver, c: C, negs: u8, mode: Mode, tag: Tag) -> R {
    match negs {
        0 => act_neg(s, c, mode, tag),
        1 => act_neg(s, c.negation(), mode, tag),
        2 => act_neg(s, c.negation().negation(), mode, tag),
        _ => act_neg(s, c.negation().negation().negation(), mode, tag),
    }
}

fn post_negatable(s: &mut Solver, vars: &Vars, c: &Cons, negs: u8, mode: Mode, tag: Tag) -> R {
    match c {
        Cons::LinLe(ts, k) => with_negs(s, constraints::less_than_or_equals(vars.views(ts), *k), negs, mode, tag),
        Cons::LinEq(ts, k) => with_negs(s, constraints::equals(vars.views(ts), *k), negs, mode, tag),
        Cons::LinNe(ts, k) => with_negs(s, constraints::not_equals(vars.views(ts), *k), negs, mode, tag),
        // clauses cannot be tagged (the library asserts this)
        Cons::Clause(ls) => {
            let lits: Vec<Literal> = ls.iter().map(|l| vars.lit(l)).collect();
            with_negs(s, constraints::clause(lits), negs, mode, None)
        }
        Cons::Conj(ls) => {
            let lits: Vec<Literal> = ls.iter().map(|l| vars.lit(l)).collect();
            with_negs(s, constraints::conjunction(lits), negs, mode, None)
        }
        Cons::Neg(inner) => post_negatable(s, vars, inner, negs + 1, mode, tag),
        other => panic!("harness: {} is not negatable", other.kind()),
    }
}

/// Post one constraint of the IR. `style` selects between equivalent API spellings.
pub fn post_cons(s: &mut Solver, vars: &Vars, c: &Cons, mode: Mode, tag: Tag, style: u64) -> R {
    match c {
        Cons::LinLe(..) | Cons::LinEq(..) | Cons::LinNe(..) | Cons::Conj(..) | Cons::Neg(..) => {
            post_negatable(s, vars, c, 0, mode, tag)
        }
        Cons::Clause(ls) => {
            let all_lits = ls.iter().all(|l| vars.is_lit_atom(l));
            match mode {
                Mode::Post if !(all_lits && style % 2 == 1) => s.add_clause(ls.iter().map(|l| vars.pred(l))),
                _ => post_negatable(s, vars, c, 0, mode, tag),
            }
        }
        Cons::Times(a, b, r) => act(s, constraints::times(vars.view(a), vars.view(b), vars.view(r)), mode, tag),
        Cons::Div(n, d, r) => act(s, constraints::division(vars.view(n), vars.view(d), vars.view(r)), mode, tag),
        Cons::Abs(x, r) => act(s, constraints::absolute(vars.view(x), vars.view(r)), mode, tag),
        Cons::Max(xs, r) => act(s, constraints::maximum(vars.views(xs), vars.view(r)), mode, tag),
        Cons::Min(xs, r) => act(s, constraints::minimum(vars.views(xs), vars.view(r)), mode, tag),
        Cons::Element(i, xs, r) => {
            act(s, constraints::element(vars.view(i), vars.views(xs), vars.view(r)), mode, tag)
        }
        Cons::AllDiff(xs) => act(s, constraints::all_different(vars.views(xs)), mode, tag),
        Cons::Cumulative(ts, cap, o) => {
            let starts: Vec<V> = ts.iter().map(|t| vars.view(&t.0)).collect();
            let durs: Vec<i32> = ts.iter().map(|t| t.1).collect();
            let uses: Vec<i32> = ts.iter().map(|t| t.2).collect();
            act(
                s,
                constraints::cumulative_with_options(starts, durs, uses, *cap, cumulative_options(o)),
                mode,
                tag,
            )
        }
        Cons::Implied(r, inner) => {
            assert!(matches!(mode, Mode::Post));
            post_cons(s, vars, inner, Mode::Implied(vars.lit(r)), tag, style)
        }
        Cons::Reif(r, inner) => {
            assert!(matches!(mode, Mode::Post));
            post_negatable(s, vars, inner, 0, Mode::Reif(vars.lit(r)), tag)
        }
    }
}

pub struct Built {
    pub solver: Solver,
    pub vars: Vars,
    /// index of the first constraint whose posting returned an error (the solver is then infeasible)
    pub failed_at: Option<usize>,
}

/// C16 (`WIDE_DECL`): narrows the widely declared interval variables to the domains of the model by
/// unary linear constraints; false if that makes the solver infeasible.
fn narrow_wide(solver: &mut Solver, vars: &Vars, m: &Model) -> bool {
    for (i, d) in m.vars.iter().enumerate() {
        if d.kind != VarKind::Interval {
            continue;
        }
        let x = vars.ids[i];
        if solver.add_constraint(constraints::less_than_or_equals(vec![x.scaled(1)], d.ub())).post().is_err() {
            return false;
        }
        // (a lower bound of i32::MIN is the declared one already and `-lb` is not representable)
        if d.lb() > i32::MIN
            && solver.add_constraint(constraints::less_than_or_equals(vec![x.scaled(-1)], -d.lb())).post().is_err()
        {
            return false;
        }
    }
    true
}

/// Declares all variables, then posts the constraints in order, stopping at the first error.
pub fn build(mut solver: Solver, m: &Model, named: bool, tagged: bool, style_seed: u64) -> Built {
    let mut vars = Vars { ids: vec![], lits: vec![] };
    let mut r = crate::rng::Rng::new(style_seed);
    for (i, d) in m.vars.iter().enumerate() {
        let name = if named { Some(format!("x{}", i)) } else { None };
        declare_var(&mut solver, &mut vars, d, name, r.next());
    }
    let wide = crate::config::WIDE_DECL.load(std::sync::atomic::Ordering::Relaxed);
    let mut failed_at = None;
    // only a linear first constraint is posted on the wide domains: its bounds propagation is one
    // pass, while e.g. |x| = x or min(x, x) = y + 9 creep through the range value by value
    let first_on_wide = wide && matches!(m.cons.first(), Some(Cons::LinLe(..)) | Some(Cons::LinEq(..)) | Some(Cons::LinNe(..)));
    if wide && !first_on_wide {
        let ok = narrow_wide(&mut solver, &vars, m);
        assert!(ok, "narrowing before any constraint is posted cannot fail");
    }
    for (i, c) in m.cons.iter().enumerate() {
        if first_on_wide && i == 1 {
            // Only the first constraint is posted on the wide domains (a single constraint cannot
            // make bounds propagation creep through billions of values, two can: x < y and y < x);
            // its propagator then sees each variable jump to the model's domain in one event.
            if !narrow_wide(&mut solver, &vars, m) {
                failed_at = Some(0);
                break;
            }
        }
        let tag = if tagged { NonZero::new(i as u32 + 1) } else { None };
        let res = post_cons(&mut solver, &vars, c, Mode::Post, tag, r.next());
        if std::env::var_os("PHARNESS_EAGER").is_some() {
            eprintln!("# post {} {} -> {:?}", i, c.full_kind(), res);
        }
        if res.is_err() {
            failed_at = Some(i);
            break;
        }
    }
    if first_on_wide && failed_at.is_none() && m.cons.len() == 1 && !narrow_wide(&mut solver, &vars, m) {
        failed_at = Some(0);
    }
    Built { solver, vars, failed_at }
}
