//! Intermediate representation of a generated model: mirrors `Pumpkin.Spec.Cons` on the Lean side.
//! `emit` writes the whitespace-token form the Lean driver parses.

use crate::rng::Rng;

#[derive(Clone, Copy, Debug, PartialEq, Eq)]
pub struct View {
    pub scale: i32,
    pub offset: i32,
    pub var: usize,
}

impl View {
    pub fn of(var: usize) -> View {
        View { scale: 1, offset: 0, var }
    }
    pub fn emit(&self, out: &mut String) {
        out.push_str(&format!(" {} {} {}", self.scale, self.offset, self.var));
    }
    pub fn eval(&self, a: &[i32]) -> i64 {
        self.scale as i64 * a[self.var] as i64 + self.offset as i64
    }
}

#[derive(Clone, Copy, Debug, PartialEq, Eq, Hash, PartialOrd, Ord)]
pub enum Atom {
    Ge(usize, i32),
    Le(usize, i32),
    Ne(usize, i32),
    Eq(usize, i32),
}

impl Atom {
    pub fn var(&self) -> usize {
        match *self {
            Atom::Ge(x, _) | Atom::Le(x, _) | Atom::Ne(x, _) | Atom::Eq(x, _) => x,
        }
    }
    pub fn emit(&self, out: &mut String) {
        let (k, x, v) = match *self {
            Atom::Ge(x, v) => ("ge", x, v),
            Atom::Le(x, v) => ("le", x, v),
            Atom::Ne(x, v) => ("ne", x, v),
            Atom::Eq(x, v) => ("eq", x, v),
        };
        out.push_str(&format!(" {} {} {}", k, x, v));
    }
    pub fn holds(&self, a: &[i32]) -> bool {
        match *self {
            Atom::Ge(x, v) => a[x] >= v,
            Atom::Le(x, v) => a[x] <= v,
            Atom::Ne(x, v) => a[x] != v,
            Atom::Eq(x, v) => a[x] == v,
        }
    }
    pub fn neg(&self) -> Atom {
        match *self {
            Atom::Ge(x, v) => Atom::Le(x, v - 1),
            Atom::Le(x, v) => Atom::Ge(x, v + 1),
            Atom::Ne(x, v) => Atom::Eq(x, v),
            Atom::Eq(x, v) => Atom::Ne(x, v),
        }
    }
}

/// Options of one cumulative constraint: (method 0..6, explanation 0..3, holes, sequence, incremental backtracking)
#[derive(Clone, Copy, Debug, PartialEq, Eq, Default)]
pub struct CumOpt {
    pub method: u8,
    pub explanation: u8,
    pub holes: bool,
    pub sequence: bool,
    pub incremental_backtracking: bool,
}

impl CumOpt {
    pub fn from_index(i: usize) -> CumOpt {
        let i = i % 144;
        CumOpt {
            method: (i % 6) as u8,
            explanation: ((i / 6) % 3) as u8,
            holes: (i / 18) % 2 == 1,
            sequence: (i / 36) % 2 == 1,
            incremental_backtracking: (i / 72) % 2 == 1,
        }
    }
    pub fn index(&self) -> usize {
        self.method as usize
            + 6 * self.explanation as usize
            + 18 * self.holes as usize
            + 36 * self.sequence as usize
            + 72 * self.incremental_backtracking as usize
    }
}

#[derive(Clone, Debug, PartialEq, Eq)]
pub enum Cons {
    LinLe(Vec<View>, i32),
    LinEq(Vec<View>, i32),
    LinNe(Vec<View>, i32),
    Times(View, View, View),
    Div(View, View, View),
    Abs(View, View),
    Max(Vec<View>, View),
    Min(Vec<View>, View),
    Element(View, Vec<View>, View),
    AllDiff(Vec<View>),
    Cumulative(Vec<(View, i32, i32)>, i32, CumOpt),
    Clause(Vec<Atom>),
    Conj(Vec<Atom>),
    Implied(Atom, Box<Cons>),
    Reif(Atom, Box<Cons>),
    Neg(Box<Cons>),
}

fn emit_views(vs: &[View], out: &mut String) {
    out.push_str(&format!(" {}", vs.len()));
    for v in vs {
        v.emit(out);
    }
}

impl Cons {
    pub fn kind(&self) -> &'static str {
        match self {
            Cons::LinLe(..) => "linle",
            Cons::LinEq(..) => "lineq",
            Cons::LinNe(..) => "linne",
            Cons::Times(..) => "times",
            Cons::Div(..) => "div",
            Cons::Abs(..) => "abs",
            Cons::Max(..) => "max",
            Cons::Min(..) => "min",
            Cons::Element(..) => "elem",
            Cons::AllDiff(..) => "alldiff",
            Cons::Cumulative(..) => "cumul",
            Cons::Clause(..) => "clause",
            Cons::Conj(..) => "conj",
            Cons::Implied(..) => "impl",
            Cons::Reif(..) => "reif",
            Cons::Neg(..) => "neg",
        }
    }
    /// kind including the kinds of nested constraints, e.g. `impl.neg.linle`
    pub fn full_kind(&self) -> String {
        match self {
            Cons::Implied(_, c) | Cons::Reif(_, c) | Cons::Neg(c) => {
                format!("{}.{}", self.kind(), c.full_kind())
            }
            _ => self.kind().to_string(),
        }
    }
    pub fn emit(&self, out: &mut String) {
        out.push(' ');
        out.push_str(self.kind());
        match self {
            Cons::LinLe(ts, c) | Cons::LinEq(ts, c) | Cons::LinNe(ts, c) => {
                emit_views(ts, out);
                out.push_str(&format!(" {}", c));
            }
            Cons::Times(a, b, c) | Cons::Div(a, b, c) => {
                a.emit(out);
                b.emit(out);
                c.emit(out);
            }
            Cons::Abs(s, a) => {
                s.emit(out);
                a.emit(out);
            }
            Cons::Max(xs, r) | Cons::Min(xs, r) => {
                emit_views(xs, out);
                r.emit(out);
            }
            Cons::Element(i, xs, r) => {
                i.emit(out);
                emit_views(xs, out);
                r.emit(out);
            }
            Cons::AllDiff(xs) => emit_views(xs, out),
            Cons::Cumulative(ts, cap, _) => {
                out.push_str(&format!(" {}", ts.len()));
                for (s, d, u) in ts {
                    s.emit(out);
                    out.push_str(&format!(" {} {}", d, u));
                }
                out.push_str(&format!(" {}", cap));
            }
            Cons::Clause(ls) | Cons::Conj(ls) => {
                out.push_str(&format!(" {}", ls.len()));
                for l in ls {
                    l.emit(out);
                }
            }
            Cons::Implied(r, c) | Cons::Reif(r, c) => {
                r.emit(out);
                c.emit(out);
            }
            Cons::Neg(c) => c.emit(out),
        }
    }
    pub fn cumopt(&self) -> Option<CumOpt> {
        match self {
            Cons::Cumulative(_, _, o) => Some(*o),
            Cons::Implied(_, c) | Cons::Reif(_, c) | Cons::Neg(c) => c.cumopt(),
            _ => None,
        }
    }
    pub fn to_text(&self) -> String {
        let mut s = String::new();
        self.emit(&mut s);
        s.trim_start().to_string()
    }

    /// Reference evaluation in 64-bit arithmetic (only used by the harness for shrinking and for
    /// statistics; the judgement is made by the Lean oracle).
    pub fn sat(&self, a: &[i32]) -> bool {
        let sum = |ts: &Vec<View>| ts.iter().map(|t| t.eval(a)).sum::<i64>();
        match self {
            Cons::LinLe(ts, c) => sum(ts) <= *c as i64,
            Cons::LinEq(ts, c) => sum(ts) == *c as i64,
            Cons::LinNe(ts, c) => sum(ts) != *c as i64,
            Cons::Times(x, y, z) => x.eval(a) * y.eval(a) == z.eval(a),
            Cons::Div(n, d, r) => d.eval(a) != 0 && n.eval(a) / d.eval(a) == r.eval(a),
            Cons::Abs(s, r) => s.eval(a).abs() == r.eval(a),
            Cons::Max(xs, r) => {
                xs.iter().all(|x| x.eval(a) <= r.eval(a)) && xs.iter().any(|x| x.eval(a) == r.eval(a))
            }
            Cons::Min(xs, r) => {
                xs.iter().all(|x| x.eval(a) >= r.eval(a)) && xs.iter().any(|x| x.eval(a) == r.eval(a))
            }
            Cons::Element(i, xs, r) => {
                let i = i.eval(a);
                i >= 0 && (i as usize) < xs.len() && xs[i as usize].eval(a) == r.eval(a)
            }
            Cons::AllDiff(xs) => {
                for i in 0..xs.len() {
                    for j in i + 1..xs.len() {
                        if xs[i].eval(a) == xs[j].eval(a) {
                            return false;
                        }
                    }
                }
                true
            }
            Cons::Cumulative(ts, cap, _) => {
                if *cap < 0 {
                    return false;
                }
                ts.iter().all(|(s, _, _)| {
                    let t = s.eval(a);
                    let load: i64 = ts
                        .iter()
                        .map(|(s2, d2, u2)| {
                            let st = s2.eval(a);
                            if st <= t && t < st + *d2 as i64 {
                                *u2 as i64
                            } else {
                                0
                            }
                        })
                        .sum();
                    load <= *cap as i64
                })
            }
            Cons::Clause(ls) => ls.iter().any(|l| l.holds(a)),
            Cons::Conj(ls) => ls.iter().all(|l| l.holds(a)),
            Cons::Implied(r, c) => !r.holds(a) || c.sat(a),
            Cons::Reif(r, c) => r.holds(a) == c.sat(a),
            Cons::Neg(c) => !c.sat(a),
        }
    }

    pub fn vars(&self, acc: &mut Vec<usize>) {
        let mut vs = |ts: &[View]| ts.iter().for_each(|t| acc.push(t.var));
        match self {
            Cons::LinLe(ts, _) | Cons::LinEq(ts, _) | Cons::LinNe(ts, _) | Cons::AllDiff(ts) => vs(ts),
            Cons::Times(a, b, c) | Cons::Div(a, b, c) => vs(&[*a, *b, *c]),
            Cons::Abs(a, b) => vs(&[*a, *b]),
            Cons::Max(xs, r) | Cons::Min(xs, r) => {
                vs(xs);
                vs(&[*r])
            }
            Cons::Element(i, xs, r) => {
                vs(xs);
                vs(&[*i, *r])
            }
            Cons::Cumulative(ts, _, _) => ts.iter().for_each(|t| acc.push(t.0.var)),
            Cons::Clause(ls) | Cons::Conj(ls) => ls.iter().for_each(|l| acc.push(l.var())),
            Cons::Implied(r, c) | Cons::Reif(r, c) => {
                acc.push(r.var());
                c.vars(acc)
            }
            Cons::Neg(c) => c.vars(acc),
        }
    }
}

#[derive(Clone, Copy, Debug, PartialEq, Eq)]
pub enum VarKind {
    /// created with `new_bounded_integer`
    Interval,
    /// created with `new_sparse_integer`
    Sparse,
    /// created with `new_literal` (0-1 domain)
    Lit,
}

#[derive(Clone, Debug, PartialEq, Eq)]
pub struct VarDecl {
    pub kind: VarKind,
    /// sorted, distinct
    pub values: Vec<i32>,
}

impl VarDecl {
    pub fn lb(&self) -> i32 {
        self.values[0]
    }
    pub fn ub(&self) -> i32 {
        *self.values.last().unwrap()
    }
}

#[derive(Clone, Debug, Default, PartialEq, Eq)]
pub struct Model {
    pub vars: Vec<VarDecl>,
    pub cons: Vec<Cons>,
}

impl Model {
    pub fn emit(&self) -> String {
        let mut out = String::new();
        out.push_str(&format!("{}", self.vars.len()));
        for v in &self.vars {
            out.push_str(&format!(" {}", v.values.len()));
            for x in &v.values {
                out.push_str(&format!(" {}", x));
            }
        }
        out.push_str(&format!(" {}", self.cons.len()));
        for c in &self.cons {
            c.emit(&mut out);
        }
        out
    }
    pub fn product(&self) -> u64 {
        self.vars.iter().fold(1u64, |p, v| p.saturating_mul(v.values.len() as u64))
    }
    pub fn sat(&self, a: &[i32]) -> bool {
        a.len() == self.vars.len()
            && self.vars.iter().zip(a).all(|(d, v)| d.values.binary_search(v).is_ok())
            && self.cons.iter().all(|c| c.sat(a))
    }
    pub fn view_range(&self, w: &View) -> (i64, i64) {
        let d = &self.vars[w.var];
        let a = w.scale as i64 * d.lb() as i64 + w.offset as i64;
        let b = w.scale as i64 * d.ub() as i64 + w.offset as i64;
        (a.min(b), a.max(b))
    }
    pub fn view_values(&self, w: &View) -> Vec<i64> {
        self.vars[w.var].values.iter().map(|v| w.scale as i64 * *v as i64 + w.offset as i64).collect()
    }
    pub fn is_lit(&self, x: usize) -> bool {
        self.vars[x].kind == VarKind::Lit
    }
}

// ---------------------------------------------------------------------------------------------
// generator
// ---------------------------------------------------------------------------------------------

#[derive(Clone, Debug)]
pub struct GenCfg {
    pub min_vars: usize,
    pub max_vars: usize,
    pub max_width: i32,
    pub min_cons: usize,
    pub max_cons: usize,
    pub max_product: u64,
    pub max_lits: usize,
    /// constraint kinds that may be generated at top level (see `Cons::kind`)
    pub kinds: Vec<&'static str>,
    /// probability (percent) that a view is not the identity
    pub view_pct: u64,
    /// centre of the domains
    pub centre: i32,
    /// probability (percent) that a constraint is generated such that the hidden witness satisfies it
    pub plant_pct: u64,
    /// probability (percent) that a variable gets a huge but narrow domain (C16)
    pub big_pct: u64,
    /// probability (percent) that the model comes from the structured family (`gen_model_sym`)
    pub sym_pct: u64,
    /// probability (percent) that a domain is placed so that it has negative and positive values
    /// (sign case splits of the arithmetic propagators)
    pub straddle_pct: u64,
}

impl Default for GenCfg {
    fn default() -> Self {
        GenCfg {
            min_vars: 2,
            max_vars: 6,
            max_width: 7,
            min_cons: 1,
            max_cons: 6,
            max_product: 20_000,
            max_lits: 3,
            kinds: vec![
                "linle", "lineq", "linne", "times", "div", "abs", "max", "min", "elem", "alldiff", "cumul",
                "clause", "conj", "impl", "reif", "neg",
            ],
            view_pct: 40,
            centre: 0,
            plant_pct: 50,
            big_pct: 0,
            sym_pct: 20,
            straddle_pct: 0,
        }
    }
}

pub struct Gen<'a> {
    pub rng: &'a mut Rng,
    pub cfg: GenCfg,
    pub m: Model,
    /// a hidden assignment; most constraints are generated so that it satisfies them ("planted
    /// solution"), which keeps the share of infeasible models moderate
    pub witness: Vec<i32>,
}

impl<'a> Gen<'a> {
    pub fn new(rng: &'a mut Rng, cfg: GenCfg) -> Self {
        Gen { rng, cfg, m: Model::default(), witness: vec![] }
    }

    pub fn gen_big_domain(&mut self) -> VarDecl {
        const CENTRES: [i64; 12] = [
            2147483647, -2147483648, 1073741824, -1073741824, 65536, -65536, 46341, -46341, 715827882, -715827883, 2147483000,
            -2147483000,
        ];
        let c = *self.rng.pick(&CENTRES);
        let width = self.rng.range(0, 3);
        let lo = (c + self.rng.range(-3, 3)).clamp(i32::MIN as i64, i32::MAX as i64 - width);
        let values: Vec<i32> = (lo..=lo + width).map(|v| v as i32).collect();
        VarDecl { kind: if self.rng.chance(1, 4) { VarKind::Sparse } else { VarKind::Interval }, values }
    }

    pub fn gen_domain(&mut self) -> VarDecl {
        if self.rng.below(100) < self.cfg.big_pct {
            return self.gen_big_domain();
        }
        let r = self.rng.below(100);
        let c = self.cfg.centre;
        let mut lb = c + self.rng.i32(-6, 5);
        let straddle = self.cfg.straddle_pct > 0 && self.rng.below(100) < self.cfg.straddle_pct;
        let width = if r < 10 && !straddle {
            0
        } else if r < 28 {
            1
        } else {
            self.rng.i32(2, self.cfg.max_width.max(2))
        };
        if straddle {
            lb = -(width / 2) - self.rng.i32(0, 1);
        }
        let mut values: Vec<i32> = (lb..=lb + width).collect();
        let mut kind = VarKind::Interval;
        if values.len() >= 3 && self.rng.chance(35, 100) {
            // sparse: remove some values but keep the extremes; bias the holes to sit next to the bounds
            kind = VarKind::Sparse;
            let n = values.len();
            let mut keep = vec![true; n];
            let holes = 1 + self.rng.usize((n - 2).min(3));
            for _ in 0..holes {
                let i = if self.rng.chance(1, 2) {
                    if self.rng.chance(1, 2) {
                        1
                    } else {
                        n - 2
                    }
                } else {
                    1 + self.rng.usize(n - 2)
                };
                keep[i] = false;
            }
            values = values.into_iter().zip(keep).filter(|(_, k)| *k).map(|(v, _)| v).collect();
        } else if self.rng.chance(1, 10) {
            kind = VarKind::Sparse; // a sparse variable without holes
        }
        VarDecl { kind, values }
    }

    pub fn new_var(&mut self, d: VarDecl) -> usize {
        let w = *self.rng.pick(&d.values);
        self.new_var_with(d, w)
    }

    pub fn new_var_with(&mut self, d: VarDecl, w: i32) -> usize {
        self.witness.push(w);
        self.m.vars.push(d);
        self.m.vars.len() - 1
    }

    pub fn new_lit(&mut self) -> usize {
        self.new_var(VarDecl { kind: VarKind::Lit, values: vec![0, 1] })
    }

    fn can_add_var(&self, size: u64) -> bool {
        self.m.vars.len() < self.cfg.max_vars + 3 && self.m.product().saturating_mul(size) <= self.cfg.max_product
    }

    pub fn any_var(&mut self) -> usize {
        self.rng.usize(self.m.vars.len())
    }

    pub fn int_var(&mut self) -> usize {
        // prefer non-literal variables
        for _ in 0..4 {
            let x = self.any_var();
            if !self.m.is_lit(x) {
                return x;
            }
        }
        self.any_var()
    }

    pub fn view_of(&mut self, var: usize) -> View {
        let v = self.view_of_unchecked(var);
        // admitted range: every value of a view fits i32 (so only intermediate results can overflow)
        let (lo, hi) = self.m.view_range(&v);
        if lo < i32::MIN as i64 || hi > i32::MAX as i64 {
            return View::of(var);
        }
        v
    }

    fn view_of_unchecked(&mut self, var: usize) -> View {
        if self.cfg.big_pct > 0 && self.rng.chance(1, 5) {
            // large coefficients over small domains: the value of the view still fits 32 bits, but
            // intermediate results of the view arithmetic (remainder times scale, ...) need not
            let scale = *self.rng.pick(&[46341, -46341, 65536, -65537, 100_000, 1_000_003, -30_000_001, 100_000_000, -100_000_000, 400_000_000]);
            let offset = if self.rng.chance(1, 2) { 0 } else { self.rng.i32(-1000, 1000) };
            return View { scale, offset, var };
        }
        if self.rng.below(100) < self.cfg.view_pct {
            let mut scale = self.rng.i32(-3, 3);
            if scale == 0 {
                scale = -1;
            }
            let offset = if self.rng.chance(1, 2) { 0 } else { self.rng.i32(-4, 4) };
            View { scale, offset, var }
        } else {
            View::of(var)
        }
    }

    pub fn view(&mut self) -> View {
        let x = self.int_var();
        self.view_of(x)
    }

    /// A view for a "result" position. With a `target` (the value the result has under the hidden
    /// witness) the view is built to evaluate to it: over a fresh variable whose domain contains
    /// the target, or over an existing variable with a suitable offset.
    fn result_view(&mut self, lo: i64, hi: i64, target: Option<i64>) -> View {
        let big = self.cfg.big_pct > 0;
        let lim: i64 = if big { i32::MAX as i64 - 8 } else { 40 };
        let lo = lo.clamp(-lim, lim);
        let hi = hi.clamp(lo, lim).min(lo + 9);
        let (lo, hi) = match target {
            Some(t) if t < lo || t > hi => {
                let t = t.clamp(-lim - if big { 0 } else { 20 }, lim + if big { 0 } else { 20 });
                (t - 4, t + 4)
            }
            _ => (lo, hi),
        };
        let size = (hi - lo + 1) as u64;
        if self.rng.chance(1, 2) && self.can_add_var(size) {
            let mut values: Vec<i32> = (lo as i32..=hi as i32).collect();
            let mut kind = VarKind::Interval;
            let t = target.map(|t| t.clamp(lo, hi) as i32);
            if values.len() >= 3 && self.rng.chance(1, 4) {
                let i = 1 + self.rng.usize(values.len() - 2);
                if Some(values[i]) != t {
                    let _ = values.remove(i);
                    kind = VarKind::Sparse;
                }
            }
            let w = t.unwrap_or_else(|| *self.rng.pick(&values));
            let x = self.new_var_with(VarDecl { kind, values }, w);
            View::of(x)
        } else {
            let v = self.view();
            match target {
                Some(t) if t.abs() < 1000 || big => {
                    // keep the scale, choose the offset so that the witness hits the target
                    let base = v.scale as i64 * self.witness[v.var] as i64;
                    let off = t - base;
                    let cand = View { scale: v.scale, offset: off.clamp(i32::MIN as i64, i32::MAX as i64) as i32, var: v.var };
                    let (l, h) = self.m.view_range(&cand);
                    if off == cand.offset as i64 && l >= i32::MIN as i64 && h <= i32::MAX as i64 {
                        cand
                    } else {
                        v
                    }
                }
                _ => v,
            }
        }
    }

    fn weval(&self, v: &View) -> i64 {
        v.eval(&self.witness)
    }

    fn views(&mut self, lo: usize, hi: usize) -> Vec<View> {
        let n = lo + self.rng.usize(hi - lo + 1);
        (0..n).map(|_| self.view()).collect()
    }

    fn sum_range(&self, ts: &[View]) -> (i64, i64) {
        ts.iter().fold((0, 0), |(a, b), t| {
            let (l, h) = self.m.view_range(t);
            (a + l, b + h)
        })
    }

    fn lit_atom(&mut self) -> Atom {
        // a literal: atom [x >= 1] or [x <= 0] over a 0-1 literal variable
        let lits: Vec<usize> = (0..self.m.vars.len()).filter(|&x| self.m.is_lit(x)).collect();
        let x = if lits.is_empty() || (lits.len() < self.cfg.max_lits && self.rng.chance(1, 3) && self.can_add_var(2))
        {
            self.new_lit()
        } else {
            *self.rng.pick(&lits)
        };
        if self.rng.chance(2, 3) {
            Atom::Ge(x, 1)
        } else {
            Atom::Le(x, 0)
        }
    }

    pub fn atom(&mut self) -> Atom {
        let x = self.any_var();
        let d = &self.m.vars[x];
        let v = self.rng.i32(d.lb() - 1, d.ub() + 1);
        match self.rng.below(4) {
            0 => Atom::Ge(x, v),
            1 => Atom::Le(x, v),
            2 => Atom::Ne(x, v),
            _ => Atom::Eq(x, v),
        }
    }

    fn gen_lin(&mut self, which: &str) -> Cons {
        let ts = self.views(1, 4);
        let (lo, hi) = self.sum_range(&ts);
        let c = if self.rng.chance(2, 3) {
            // near the value of the witness: the interesting region
            let s: i64 = ts.iter().map(|t| self.weval(t)).sum();
            s + self.rng.range(-1, 2)
        } else {
            self.rng.range(lo - 1, hi + 1)
        }
        .clamp(i32::MIN as i64 + 1, i32::MAX as i64 - 1) as i32;
        match which {
            "linle" => Cons::LinLe(ts, c),
            "lineq" => Cons::LinEq(ts, c),
            _ => Cons::LinNe(ts, c),
        }
    }

    fn nonzero_view(&mut self) -> Option<View> {
        for _ in 0..8 {
            let w = self.view();
            if self.m.view_values(&w).iter().all(|v| *v != 0) {
                return Some(w);
            }
        }
        if self.can_add_var(3) {
            let lo = if self.rng.chance(1, 2) { 1 } else { -3 };
            let x = self.new_var(VarDecl { kind: VarKind::Interval, values: (lo..=lo + 2).collect() });
            return Some(View::of(x));
        }
        None
    }

    /// constraints that can be negated / fully reified through `NegatableConstraint`
    fn gen_negatable(&mut self) -> Cons {
        match self.rng.below(5) {
            0 => self.gen_lin("linle"),
            1 => self.gen_lin("lineq"),
            2 => self.gen_lin("linne"),
            3 => {
                let n = 1 + self.rng.usize(3);
                Cons::Clause((0..n).map(|_| self.lit_atom()).collect())
            }
            _ => {
                let n = 1 + self.rng.usize(3);
                Cons::Conj((0..n).map(|_| self.lit_atom()).collect())
            }
        }
    }

    fn gen_base(&mut self, kind: &str) -> Option<Cons> {
        Some(match kind {
            "linle" | "lineq" | "linne" => self.gen_lin(kind),
            "times" => {
                let a = self.view();
                let b = self.view();
                let (al, ah) = self.m.view_range(&a);
                let (bl, bh) = self.m.view_range(&b);
                let ps = [al * bl, al * bh, ah * bl, ah * bh];
                let t = self.weval(&a) * self.weval(&b);
                let c = self.result_view(*ps.iter().min().unwrap(), *ps.iter().max().unwrap(), Some(t));
                Cons::Times(a, b, c)
            }
            "div" => {
                let n = self.view();
                let d = self.nonzero_view()?;
                let (nl, nh) = self.m.view_range(&n);
                let m = nl.abs().max(nh.abs());
                let t = self.weval(&n) / self.weval(&d);
                let r = self.result_view(-m, m, Some(t));
                Cons::Div(n, d, r)
            }
            "abs" => {
                let s = self.view();
                let (l, h) = self.m.view_range(&s);
                let t = self.weval(&s).abs();
                let a = self.result_view(0, l.abs().max(h.abs()), Some(t));
                Cons::Abs(s, a)
            }
            "max" | "min" => {
                let xs = self.views(1, 4);
                let lo = xs.iter().map(|x| self.m.view_range(x).0).min().unwrap();
                let hi = xs.iter().map(|x| self.m.view_range(x).1).max().unwrap();
                let t = if kind == "max" {
                    xs.iter().map(|x| self.weval(x)).max().unwrap()
                } else {
                    xs.iter().map(|x| self.weval(x)).min().unwrap()
                };
                let r = self.result_view(lo, hi, Some(t));
                if kind == "max" {
                    Cons::Max(xs, r)
                } else {
                    Cons::Min(xs, r)
                }
            }
            "elem" => {
                let xs = self.views(1, 4);
                let i0 = self.rng.usize(xs.len());
                let i = if self.rng.chance(1, 2) && self.can_add_var(xs.len() as u64 + 1) {
                    let lo = self.rng.i32(-1, 0);
                    let hi = xs.len() as i32 - 1 + self.rng.i32(0, 1);
                    let x = self.new_var_with(
                        VarDecl { kind: VarKind::Interval, values: (lo..=hi.max(lo)).collect() },
                        i0 as i32,
                    );
                    View::of(x)
                } else {
                    self.result_view(0, xs.len() as i64 - 1, Some(i0 as i64))
                };
                let lo = xs.iter().map(|x| self.m.view_range(x).0).min().unwrap();
                let hi = xs.iter().map(|x| self.m.view_range(x).1).max().unwrap();
                let t = self.weval(&xs[i0]);
                let mut r = self.result_view(lo, hi, Some(t));
                // Known finding (element with index and right-hand side over the same variable):
                // kept out of the random streams, present in the corpus.
                let mut guard = 0;
                while r.var == i.var && guard < 8 {
                    r = self.result_view(lo, hi, Some(t));
                    guard += 1;
                }
                if r.var == i.var {
                    return None;
                }
                Cons::Element(i, xs, r)
            }
            "alldiff" => Cons::AllDiff(self.views(2, 4)),
            "cumul" => {
                let n = 2 + self.rng.usize(3);
                let ts = (0..n)
                    .map(|_| {
                        let s = self.view();
                        (s, self.rng.i32(0, 3), self.rng.i32(0, 3))
                    })
                    .collect::<Vec<_>>();
                let cap = self.rng.i32(0, 4);
                Cons::Cumulative(ts, cap, CumOpt::from_index(self.rng.usize(144)))
            }
            "clause" => {
                let n = 1 + self.rng.usize(4);
                Cons::Clause((0..n).map(|_| self.atom()).collect())
            }
            "conj" => {
                let n = 1 + self.rng.usize(2);
                Cons::Conj((0..n).map(|_| self.lit_atom()).collect())
            }
            _ => return None,
        })
    }

    /// A constraint; with probability `plant_pct` one that the hidden witness satisfies
    /// (rejection sampling over `gen_cons_any`, variables created by rejected attempts are dropped).
    pub fn gen_cons(&mut self) -> Option<Cons> {
        if self.rng.below(100) >= self.cfg.plant_pct {
            return self.gen_cons_any();
        }
        for _ in 0..10 {
            let nvars = self.m.vars.len();
            if let Some(c) = self.gen_cons_any() {
                if c.sat(&self.witness) {
                    return Some(c);
                }
            }
            self.m.vars.truncate(nvars);
            self.witness.truncate(nvars);
        }
        None
    }

    pub fn gen_cons_any(&mut self) -> Option<Cons> {
        let kind = *self.rng.pick(&self.cfg.kinds.clone());
        match kind {
            "impl" => {
                // any constraint kind can be half-reified
                let base_kinds: Vec<&'static str> = vec![
                    "linle", "lineq", "linne", "times", "div", "abs", "max", "min", "elem", "alldiff", "cumul",
                    "lclause", "conj", "neg",
                ];
                let k = *self.rng.pick(&base_kinds);
                let inner = match k {
                    "lclause" => {
                        let n = 1 + self.rng.usize(3);
                        Cons::Clause((0..n).map(|_| self.lit_atom()).collect())
                    }
                    "neg" => Cons::Neg(Box::new(self.gen_negatable())),
                    _ => self.gen_base(k)?,
                };
                let r = self.lit_atom();
                Some(Cons::Implied(r, Box::new(inner)))
            }
            "implstate" => {
                // half-reified constraints whose propagators keep state across backtracking
                // (time-tables, trailed sums, fixed-term counters): the wrapper has to forward
                // every notification, backtrack notification and synchronisation
                let k = *self.rng.pick(&["cumul", "cumul", "cumul", "linne", "linle", "lineq"]);
                let inner = self.gen_base(k)?;
                let r = self.lit_atom();
                Some(Cons::Implied(r, Box::new(inner)))
            }
            "reif" => {
                let inner = if self.rng.chance(1, 5) {
                    Cons::Neg(Box::new(self.gen_negatable()))
                } else {
                    self.gen_negatable()
                };
                let r = self.lit_atom();
                Some(Cons::Reif(r, Box::new(inner)))
            }
            "neg" => {
                let inner = self.gen_negatable();
                if self.rng.chance(1, 6) {
                    Some(Cons::Neg(Box::new(Cons::Neg(Box::new(inner)))))
                } else {
                    Some(Cons::Neg(Box::new(inner)))
                }
            }
            k => self.gen_base(k),
        }
    }

    pub fn gen_vars(&mut self) {
        let n = self.cfg.min_vars + self.rng.usize(self.cfg.max_vars - self.cfg.min_vars + 1);
        for _ in 0..n {
            let mut d = self.gen_domain();
            while self.m.product().saturating_mul(d.values.len() as u64) > self.cfg.max_product / 4 && d.values.len() > 1 {
                let _ = d.values.pop();
            }
            let _ = self.new_var(d);
        }
    }

    pub fn gen_model(mut self) -> Model {
        self.gen_vars();
        let n = self.cfg.min_cons + self.rng.usize(self.cfg.max_cons - self.cfg.min_cons + 1);
        let mut tries = 0;
        while self.m.cons.len() < n && tries < 4 * n + 8 {
            tries += 1;
            if let Some(c) = self.gen_cons() {
                self.m.cons.push(c);
            }
        }
        self.m
    }
}

pub fn gen_model(rng: &mut Rng, cfg: &GenCfg) -> Model {
    if rng.below(100) < cfg.sym_pct && cfg.big_pct == 0 && cfg.kinds.iter().any(|k| *k == "clause") && cfg.kinds.iter().any(|k| *k == "linle") {
        return gen_model_sym(rng, cfg);
    }
    if rng.below(100) < 2 * cfg.sym_pct && cfg.big_pct == 0 && cfg.kinds.iter().filter(|k| **k == "cumul").count() >= 2 {
        return gen_model_sched(rng, cfg);
    }
    Gen::new(rng, cfg.clone()).gen_model()
}

/// Small scheduling instances: 4-6 tasks with their own start variable each, positive durations and
/// usages, a capacity that makes the resource tight, staggered release times, and sometimes a
/// precedence or a disequality between two starts. Unlike the generic generator (2-4 tasks, often
/// sharing variables, often trivially infeasible) these keep several profiles alive at once, which is
/// what the incremental time-table maintenance is about.
pub fn gen_model_sched(r: &mut Rng, cfg: &GenCfg) -> Model {
    if r.chance(1, 2) {
        return gen_model_sched_long(r, cfg);
    }
    let mut m = Model::default();
    let mut n = 4 + r.usize(3);
    let horizon = r.i32(3, 6);
    while n > 3 && ((horizon as u64 + 1).pow(n as u32)) > cfg.max_product.max(256) * 4 {
        n -= 1;
    }
    let mut tasks = vec![];
    let mut product: u64 = 1;
    for i in 0..n {
        let release = r.i32(0, horizon);
        let mut width = r.i32(0, horizon.min(4));
        while product * (width as u64 + 1) > cfg.max_product.max(256) && width > 0 {
            width -= 1;
        }
        product *= width as u64 + 1;
        m.vars.push(VarDecl { kind: VarKind::Interval, values: (release..=release + width).collect() });
        tasks.push((View { scale: 1, offset: 0, var: i }, r.i32(1, 4), r.i32(1, 3)));
    }
    let cap = r.i32(3, 5);
    m.cons.push(Cons::Cumulative(tasks, cap, CumOpt::from_index(r.usize(144))));
    if r.chance(1, 2) {
        let a = r.usize(n);
        let b = r.usize(n);
        if a != b {
            if r.chance(1, 2) {
                m.cons.push(Cons::LinNe(vec![View { scale: 1, offset: 0, var: a }, View { scale: -1, offset: 0, var: b }], 0));
            } else {
                m.cons.push(Cons::LinLe(vec![View { scale: 1, offset: 0, var: a }, View { scale: -1, offset: 0, var: b }], -1));
            }
        }
    }
    m
}

/// Long profiles with tasks around them: one to three "profile" tasks with a long duration and a
/// narrow start window (their compulsory parts span three or more time points once they are fixed,
/// often already at the root) and one or two short tasks whose wide start domains reach from before
/// the profile to after it, so that start times in the middle of their domains are removed as holes
/// and bounds jump over the profile. Half of the time holes in the domain are allowed.
pub fn gen_model_sched_long(r: &mut Rng, _cfg: &GenCfg) -> Model {
    let mut m = Model::default();
    let n_profile = 1 + r.usize(3);
    let n_wide = if n_profile == 3 { 1 } else { 1 + r.usize(2) };
    let cap = r.i32(2, 4);
    let mut tasks = vec![];
    for _ in 0..n_profile {
        let release = r.i32(2, 5);
        let width = r.i32(0, 2);
        let i = m.vars.len();
        m.vars.push(VarDecl { kind: VarKind::Interval, values: (release..=release + width).collect() });
        tasks.push((View { scale: 1, offset: 0, var: i }, r.i32(3, 6), r.i32(1, 3.min(cap))));
    }
    for _ in 0..n_wide {
        let release = r.i32(0, 2);
        let width = r.i32(5, 9);
        let i = m.vars.len();
        m.vars.push(VarDecl { kind: VarKind::Interval, values: (release..=release + width).collect() });
        tasks.push((View { scale: 1, offset: 0, var: i }, r.i32(2, 3), r.i32(1, 3.min(cap))));
    }
    r.shuffle(&mut tasks);
    let mut opt = CumOpt::from_index(r.usize(144));
    if r.chance(1, 2) {
        opt.holes = true;
    }
    m.cons.push(Cons::Cumulative(tasks, cap, opt));
    m
}

/// Structured models of the kind hand-written CP models have and uniform random generation almost
/// never produces: several variables with the same (or nested) domains, one sum constraint over all of
/// them, clauses of equality / disequality literals over different variables with the *same*
/// constant, ordering chains, all-different. Ties and simultaneous bound changes are the point:
/// several watched predicates of one clause become true in the same propagation round.
pub fn gen_model_sym(r: &mut Rng, cfg: &GenCfg) -> Model {
    let mut m = Model::default();
    let lo = r.i32(-2, 1);
    let width = r.i32(2, 6);
    let mut n = 3 + r.usize(3);
    while n > 2 && ((width as u64 + 1).pow(n as u32)) > cfg.max_product.max(64) {
        n -= 1;
    }
    for i in 0..n {
        // the last one or two variables sometimes get a shorter range (as in "slack" variables)
        let w = if i + 2 >= n && r.chance(1, 2) { r.i32(1, width) } else { width };
        m.vars.push(VarDecl { kind: VarKind::Interval, values: (lo..=lo + w).collect() });
    }
    let id = |x: usize| View { scale: 1, offset: 0, var: x };
    let all: Vec<View> = (0..n).map(id).collect();
    let mid = lo as i64 * n as i64 + (width as i64 * n as i64) / 2;
    let c = (mid + r.range(-2, 3)) as i32;
    match r.below(4) {
        0 => m.cons.push(Cons::LinEq(all.clone(), c)),
        _ => m.cons.push(Cons::LinLe(all.clone(), c)),
    }
    let nclauses = 1 + r.usize(3);
    for _ in 0..nclauses {
        let v = r.i32(lo, lo + width);
        let k = 2 + r.usize(2.min(n - 1));
        let mut vars: Vec<usize> = (0..n).collect();
        r.shuffle(&mut vars);
        let positive = !r.chance(1, 4);
        if r.chance(1, 3) {
            // bound literals with different thresholds: the reasons of conflicts then mention weaker
            // bounds than the ones an equality decision has put on the trail
            m.cons.push(Cons::Clause(
                vars[..k.min(n)]
                    .iter()
                    .map(|&x| {
                        let t = r.i32(lo, lo + width);
                        if r.chance(1, 2) { Atom::Le(x, t) } else { Atom::Ge(x, t) }
                    })
                    .collect(),
            ));
            continue;
        }
        m.cons.push(Cons::Clause(
            vars[..k.min(n)].iter().map(|&x| if positive { Atom::Eq(x, v) } else { Atom::Ne(x, v) }).collect(),
        ));
    }
    match r.below(5) {
        0 => m.cons.push(Cons::AllDiff(all.clone())),
        1 => {
            for i in 0..n - 1 {
                m.cons.push(Cons::LinLe(vec![id(i), View { scale: -1, offset: 0, var: i + 1 }], 0));
            }
        }
        2 => m.cons.push(Cons::LinNe(vec![id(0), View { scale: -1, offset: 0, var: n - 1 }], 0)),
        _ => {}
    }
    // a disequality over three or more terms with a non-zero right-hand side: its incremental state
    // (number of fixed terms, sum of the fixed part) goes through many fix / unfix cycles before the
    // constraint first becomes active, because the clauses above cause conflicts earlier
    if r.chance(1, 2) {
        let k = 3.min(n) + r.usize(n + 1 - 3.min(n));
        let mut vars: Vec<usize> = (0..n).collect();
        r.shuffle(&mut vars);
        let ts: Vec<View> = vars[..k].iter().map(|&x| View { scale: *r.pick(&[1, 1, 1, -1, 2]), offset: 0, var: x }).collect();
        let lo_sum: i64 = ts.iter().map(|t| if t.scale > 0 { t.scale as i64 * lo as i64 } else { t.scale as i64 * (lo + width) as i64 }).sum();
        let c = (lo_sum + r.range(1, (width as i64) * 2)) as i32;
        m.cons.push(Cons::LinNe(ts, c));
    }
    m
}

// ---------------------------------------------------------------------------------------------
// parser for the emitted text (used by the corpus / replay modes)
// ---------------------------------------------------------------------------------------------

pub struct Toks<'a> {
    pub toks: Vec<&'a str>,
    pub pos: usize,
}

impl<'a> Toks<'a> {
    pub fn new(s: &'a str) -> Self {
        Toks { toks: s.split_whitespace().collect(), pos: 0 }
    }
    pub fn next(&mut self) -> &'a str {
        let t = self.toks[self.pos];
        self.pos += 1;
        t
    }
    pub fn done(&self) -> bool {
        self.pos >= self.toks.len()
    }
    pub fn i32(&mut self) -> i32 {
        self.next().parse().expect("integer token")
    }
    pub fn usize(&mut self) -> usize {
        self.next().parse().expect("natural token")
    }
    pub fn view(&mut self) -> View {
        let scale = self.i32();
        let offset = self.i32();
        let var = self.usize();
        View { scale, offset, var }
    }
    pub fn views(&mut self) -> Vec<View> {
        let n = self.usize();
        (0..n).map(|_| self.view()).collect()
    }
    pub fn atom(&mut self) -> Atom {
        let k = self.next();
        let x = self.usize();
        let v = self.i32();
        match k {
            "ge" => Atom::Ge(x, v),
            "le" => Atom::Le(x, v),
            "ne" => Atom::Ne(x, v),
            "eq" => Atom::Eq(x, v),
            _ => panic!("bad atom kind {}", k),
        }
    }
    pub fn atoms(&mut self) -> Vec<Atom> {
        let n = self.usize();
        (0..n).map(|_| self.atom()).collect()
    }
    pub fn cons(&mut self, cumopt: CumOpt) -> Cons {
        match self.next() {
            "linle" => {
                let ts = self.views();
                Cons::LinLe(ts, self.i32())
            }
            "lineq" => {
                let ts = self.views();
                Cons::LinEq(ts, self.i32())
            }
            "linne" => {
                let ts = self.views();
                Cons::LinNe(ts, self.i32())
            }
            "times" => Cons::Times(self.view(), self.view(), self.view()),
            "div" => Cons::Div(self.view(), self.view(), self.view()),
            "abs" => Cons::Abs(self.view(), self.view()),
            "max" => {
                let xs = self.views();
                Cons::Max(xs, self.view())
            }
            "min" => {
                let xs = self.views();
                Cons::Min(xs, self.view())
            }
            "elem" => {
                let i = self.view();
                let xs = self.views();
                Cons::Element(i, xs, self.view())
            }
            "alldiff" => Cons::AllDiff(self.views()),
            "cumul" => {
                let n = self.usize();
                let ts = (0..n).map(|_| (self.view(), self.i32(), self.i32())).collect();
                Cons::Cumulative(ts, self.i32(), cumopt)
            }
            "clause" => Cons::Clause(self.atoms()),
            "conj" => Cons::Conj(self.atoms()),
            "impl" => {
                let r = self.atom();
                Cons::Implied(r, Box::new(self.cons(cumopt)))
            }
            "reif" => {
                let r = self.atom();
                Cons::Reif(r, Box::new(self.cons(cumopt)))
            }
            "neg" => Cons::Neg(Box::new(self.cons(cumopt))),
            k => panic!("bad constraint kind {}", k),
        }
    }
    /// `kinds` gives the creation kind of each variable (i/s/l); default: inferred from the values
    pub fn model(&mut self, cumopt: CumOpt) -> Model {
        let n = self.usize();
        let mut vars = vec![];
        for _ in 0..n {
            let k = self.usize();
            let values: Vec<i32> = (0..k).map(|_| self.i32()).collect();
            let contiguous = values.windows(2).all(|w| w[1] == w[0] + 1);
            let kind = if contiguous { VarKind::Interval } else { VarKind::Sparse };
            vars.push(VarDecl { kind, values });
        }
        let nc = self.usize();
        let cons: Vec<Cons> = (0..nc).map(|_| self.cons(cumopt)).collect();
        let mut m = Model { vars, cons };
        // variables used as literals must have been created as literals
        let mut lit_vars = vec![];
        fn collect(c: &Cons, top: bool, acc: &mut Vec<usize>) {
            match c {
                Cons::Implied(r, inner) | Cons::Reif(r, inner) => {
                    acc.push(r.var());
                    collect(inner, false, acc)
                }
                Cons::Neg(inner) => collect(inner, false, acc),
                Cons::Conj(ls) => ls.iter().for_each(|l| acc.push(l.var())),
                Cons::Clause(ls) if !top => ls.iter().for_each(|l| acc.push(l.var())),
                _ => {}
            }
        }
        for c in &m.cons {
            collect(c, true, &mut lit_vars);
        }
        for x in lit_vars {
            assert!(m.vars[x].values == vec![0, 1], "literal variable must have domain 0..1");
            m.vars[x].kind = VarKind::Lit;
        }
        m
    }
}
