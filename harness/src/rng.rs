//! SplitMix64: every random choice of the harness derives from one state (VERIF_SEED).

#[derive(Clone, Debug)]
pub struct Rng(pub u64);

impl Rng {
    pub fn new(seed: u64) -> Self {
        // the seed goes through the output mix so that consecutive seeds give unrelated streams
        // (a plain multiple of the increment would make seed s+1 the stream of seed s shifted by one)
        let mut r = Rng(seed ^ 0x1234_5678_9ABC_DEF1);
        let a = r.next();
        let b = r.next();
        Rng(a ^ b.rotate_left(17))
    }
    pub fn next(&mut self) -> u64 {
        self.0 = self.0.wrapping_add(0x9E3779B97F4A7C15);
        let mut z = self.0;
        z = (z ^ (z >> 30)).wrapping_mul(0xBF58476D1CE4E5B9);
        z = (z ^ (z >> 27)).wrapping_mul(0x94D049BB133111EB);
        z ^ (z >> 31)
    }
    /// uniform in 0..n (n > 0)
    pub fn below(&mut self, n: u64) -> u64 {
        self.next() % n
    }
    pub fn usize(&mut self, n: usize) -> usize {
        self.below(n as u64) as usize
    }
    /// uniform in lo..=hi
    pub fn range(&mut self, lo: i64, hi: i64) -> i64 {
        assert!(lo <= hi);
        lo + self.below((hi - lo + 1) as u64) as i64
    }
    pub fn i32(&mut self, lo: i32, hi: i32) -> i32 {
        self.range(lo as i64, hi as i64) as i32
    }
    pub fn chance(&mut self, num: u64, den: u64) -> bool {
        self.below(den) < num
    }
    pub fn pick<'a, T>(&mut self, xs: &'a [T]) -> &'a T {
        &xs[self.usize(xs.len())]
    }
    pub fn shuffle<T>(&mut self, xs: &mut [T]) {
        for i in (1..xs.len()).rev() {
            let j = self.usize(i + 1);
            xs.swap(i, j);
        }
    }
    pub fn fork(&mut self) -> Rng {
        Rng(self.next())
    }
}
