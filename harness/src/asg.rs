//! Exact correspondence of the domain store (`engine/cp/assignments.rs`) with `Model/Assignments.lean`:
//! random operation sequences (variable creation, posting of predicates of all four kinds — also ones
//! which empty a domain —, new decision levels, synchronisation to lower levels) are executed on the
//! real `Assignments` through the `AssignmentsProbe` hook; every observable after every operation is
//! written out and the Lean driver recomputes it from the model.

use pumpkin_solver::predicates::Predicate;
use pumpkin_solver::variables::DomainId;
use pumpkin_solver::verif_hooks::AssignmentsProbe;

use crate::rng::Rng;
use crate::scen::Out;

#[derive(Clone, Debug)]
enum Op {
    Grow(i32, i32),
    Sparse(Vec<i32>),
    Post(u8, u32, i32),
    NewLevel,
    Sync(usize),
    Query,
}

fn pred(kind: u8, x: u32, v: i32) -> Predicate {
    let domain_id = DomainId::new(x);
    match kind {
        0 => Predicate::LowerBound { domain_id, lower_bound: v },
        1 => Predicate::UpperBound { domain_id, upper_bound: v },
        2 => Predicate::NotEqual { domain_id, not_equal_constant: v },
        _ => Predicate::Equal { domain_id, equality_constant: v },
    }
}

const KIND: [&str; 4] = ["ge", "le", "ne", "eq"];

fn pred_str(p: Predicate) -> String {
    match p {
        Predicate::LowerBound { domain_id, lower_bound } => format!("ge.{}.{}", domain_id.id, lower_bound),
        Predicate::UpperBound { domain_id, upper_bound } => format!("le.{}.{}", domain_id.id, upper_bound),
        Predicate::NotEqual { domain_id, not_equal_constant } => format!("ne.{}.{}", domain_id.id, not_equal_constant),
        Predicate::Equal { domain_id, equality_constant } => format!("eq.{}.{}", domain_id.id, equality_constant),
    }
}

fn list(vs: &[i32]) -> String {
    format!("[{}]", vs.iter().map(|v| v.to_string()).collect::<Vec<_>>().join(";"))
}

/// semantic part (value sets; bounds of non-empty domains) `~` raw bounds
fn snapshot(a: &AssignmentsProbe, decl: &[(i32, i32)]) -> String {
    let mut s = format!("L{}T{}", a.decision_level(), a.num_trail_entries());
    let mut raw = String::new();
    for (x, _) in decl.iter().enumerate() {
        let x = x as u32;
        let (lb, ub) = (a.lower_bound(x), a.upper_bound(x));
        let vals = a.values(x);
        if lb <= ub {
            s += &format!(",{}:{}:{}:{}", x, lb, ub, list(&vals));
        } else {
            s += &format!(",{}:E:{}", x, list(&vals));
        }
        // `contains` must agree with the iterator on the declared range (and one beyond)
        let (lo, hi) = decl[x as usize];
        let cont: Vec<i32> = (lo - 1..=hi + 1).filter(|v| a.contains(x, *v)).collect();
        s += &format!(":{}", list(&cont));
        raw += &format!(",{}:{}", lb, ub);
    }
    format!("{}~{}", s, raw)
}

fn query(a: &AssignmentsProbe, decl: &[(i32, i32)]) -> String {
    let mut s = String::from("q");
    let t = a.num_trail_entries();
    for i in 0..t {
        let (p, l, u) = a.trail_entry(i);
        s += &format!(",e{}:{}:{}:{}", i, pred_str(p), l, u);
    }
    for (x, (lo, hi)) in decl.iter().enumerate() {
        let x = x as u32;
        for pos in 0..t {
            let cont: Vec<i32> = (*lo - 1..=*hi + 1).filter(|v| a.contains_at(x, *v, pos)).collect();
            s += &format!(",a{}@{}:{}:{}:{}", x, pos, a.lower_bound_at(x, pos), a.upper_bound_at(x, pos), list(&cont));
        }
        for v in *lo - 1..=*hi + 1 {
            for k in 0..4u8 {
                let p = pred(k, x, v);
                let e = match a.evaluate(p) {
                    Some(true) => "T",
                    Some(false) => "F",
                    None => "N",
                };
                let u = match a.update_info(p) {
                    Some((l, pos)) => format!("{}.{}", l, pos),
                    None => "-".to_string(),
                };
                s += &format!(",v{}:{}:{}", pred_str(p), e, u);
            }
        }
    }
    s
}

pub fn case(r: &mut Rng, out: &mut Out) {
    let mut a = AssignmentsProbe::default();
    let _ = a.drain_events();
    let mut decl: Vec<(i32, i32)> = vec![(1, 1)];
    let mut ops: Vec<Op> = Vec::new();
    let mut obs: Vec<String> = Vec::new();
    let mut tail = String::new();
    let nvars = 1 + r.usize(3);
    let long = r.chance(1, 4);
    let nops = 4 + r.usize(if long { 60 } else { 25 });
    let mut pending_vars = nvars;
    let mut last_failed = false;
    let mut i = 0;
    while i < nops || pending_vars > 0 {
        i += 1;
        let level = a.decision_level();
        let op = if pending_vars > 0 && level == 0 && (decl.len() == 1 || r.chance(1, 3)) {
            pending_vars -= 1;
            let lo = r.i32(-6, 6);
            let w = if r.chance(1, 6) { 0 } else { r.i32(1, 8) };
            if r.chance(1, 3) && w >= 2 {
                let mut vs: Vec<i32> = (lo..=lo + w).filter(|_| r.chance(2, 3)).collect();
                if vs.is_empty() {
                    vs.push(lo);
                }
                r.shuffle(&mut vs);
                if r.chance(1, 3) {
                    vs.push(vs[0]); // duplicates are removed by the constructor
                }
                Op::Sparse(vs)
            } else {
                Op::Grow(lo, lo + w)
            }
        } else if pending_vars > 0 && level > 0 && r.chance(1, 4) {
            Op::Sync(r.usize(level))
        } else if last_failed && level > 0 && r.chance(3, 4) {
            Op::Sync(r.usize(level))
        } else if pending_vars == 0 && level == 0 && r.chance(3, 5) {
            Op::NewLevel
        } else {
            match r.below(100) {
                0..=64 => {
                    let x = 1 + r.usize(decl.len() - 1).min(decl.len().saturating_sub(2)) as u32;
                    let x = if decl.len() == 1 { 0 } else { x };
                    let (lo, hi) = decl[x as usize];
                    let (lb, ub) = (a.lower_bound(x), a.upper_bound(x));
                    // near the current bounds most of the time
                    let kind = r.below(4) as u8;
                    let vals = a.values(x);
                    let v = if !vals.is_empty() && r.chance(3, 4) {
                        // keeps the domain non-empty most of the time
                        match kind {
                            0 => vals[r.usize(vals.len())] - r.i32(0, 1),
                            1 => vals[r.usize(vals.len())] + r.i32(0, 1),
                            2 => if vals.len() > 1 || r.chance(1, 2) { lb + r.i32(0, (ub - lb).max(0)) } else { lb },
                            _ => vals[r.usize(vals.len())],
                        }
                    } else {
                        match r.below(10) {
                            0..=2 => lb + r.i32(0, 2),
                            3..=5 => ub - r.i32(0, 2),
                            6 => lb,
                            7 => ub,
                            _ => r.i32(lo - 1, hi + 1),
                        }
                    };
                    Op::Post(kind, x, v)
                }
                65..=82 => Op::NewLevel,
                83..=92 => {
                    if level > 0 {
                        Op::Sync(r.usize(level))
                    } else {
                        Op::NewLevel
                    }
                }
                _ => Op::Query,
            }
        };
        last_failed = false;
        let o = match &op {
            Op::Grow(lo, hi) => {
                let id = a.grow(*lo, *hi);
                decl.push((*lo, *hi));
                format!("g{}", id)
            }
            Op::Sparse(vs) => {
                let id = a.grow_sparse(vs.clone());
                let lo = *vs.iter().min().unwrap();
                let hi = *vs.iter().max().unwrap();
                decl.push((lo, hi));
                format!("g{}", id)
            }
            Op::Post(k, x, v) => {
                let ok = a.post(pred(*k, *x, *v));
                last_failed = !ok;
                format!("p{}", ok as u8)
            }
            Op::NewLevel => {
                a.increase_decision_level();
                "n".to_string()
            }
            Op::Sync(k) => {
                let mut unfixed = a.synchronise(*k);
                unfixed.sort();
                // bookkeeping (goes behind the raw bounds): which variables the store reports as unfixed
                tail = format!("y[{}]", unfixed.iter().map(|(x, v)| format!("{}={}", x, v)).collect::<Vec<_>>().join(";"));
                "y".to_string()
            }
            Op::Query => query(&a, &decl),
        };
        // bookkeeping: the domain events raised by the operation (the sink ignores duplicates)
        let mut evs = a.drain_events();
        evs.sort_by_key(|e| (e.1, e.0));
        let evs = format!("ev[{}]", evs.iter().map(|(k, x)| format!("{}.{}", x, k)).collect::<Vec<_>>().join(";"));
        match &op {
            Op::Query => obs.push(o),
            _ => obs.push(format!("{}{}{}{}", o, snapshot(&a, &decl), std::mem::take(&mut tail), evs)),
        }
        ops.push(op);
    }
    obs.push(query(&a, &decl));
    ops.push(Op::Query);
    let mut toks: Vec<String> = Vec::new();
    for op in &ops {
        match op {
            Op::Grow(lo, hi) => toks.push(format!("g {} {}", lo, hi)),
            Op::Sparse(vs) => toks.push(format!("s {} {}", vs.len(), vs.iter().map(|v| v.to_string()).collect::<Vec<_>>().join(" "))),
            Op::Post(k, x, v) => toks.push(format!("p {} {} {}", KIND[*k as usize], x, v)),
            Op::NewLevel => toks.push("n".into()),
            Op::Sync(k) => toks.push(format!("y {}", k)),
            Op::Query => toks.push("q".into()),
        }
    }
    out.meta(format!("asgops {}", ops.len()));
    out.push(format!("asg {} {} :: {}", ops.len(), toks.join(" "), obs.join("|")));
}
