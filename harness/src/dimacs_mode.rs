//! C14: exact correspondence of the real byte-level DIMACS parser with `Model/Dimacs.lean`.
//! The real parser source is included as a module; a recording sink stands in for the solver.

#[allow(dead_code, unused_imports)]
#[path = "/repo/pumpkin-solver/src/bin/pumpkin-solver/parsers/dimacs.rs"]
mod dimacs_real;

use std::num::NonZeroI32;
use std::num::NonZeroU32;

use dimacs_real::DimacsParseError;
use dimacs_real::DimacsSink;

use crate::rng::Rng;

pub struct RecSink {
    nv: usize,
    clauses: Vec<Vec<i32>>,
    /// WCNF: hard (`None`) and soft (`Some(weight)`) clauses in file order
    weighted: Vec<(Option<u32>, Vec<i32>)>,
}

impl DimacsSink for RecSink {
    type ConstructorArgs = ();
    fn empty(_: (), num_variables: usize) -> Self {
        RecSink { nv: num_variables, clauses: vec![], weighted: vec![] }
    }
    fn add_hard_clause(&mut self, clause: &[NonZeroI32]) {
        self.clauses.push(clause.iter().map(|l| l.get()).collect());
        self.weighted.push((None, clause.iter().map(|l| l.get()).collect()));
    }
    fn add_soft_clause(&mut self, weight: NonZeroU32, clause: &[NonZeroI32]) {
        self.weighted.push((Some(weight.get()), clause.iter().map(|l| l.get()).collect()));
    }
}

/// hands the data out in small pieces so that chunk boundaries fall everywhere
struct Chunky<'a> {
    data: &'a [u8],
    pos: usize,
    rng: Rng,
}

impl std::io::Read for Chunky<'_> {
    fn read(&mut self, buf: &mut [u8]) -> std::io::Result<usize> {
        let left = self.data.len() - self.pos;
        if left == 0 {
            return Ok(0);
        }
        let n = (1 + self.rng.usize(7)).min(left).min(buf.len());
        buf[..n].copy_from_slice(&self.data[self.pos..self.pos + n]);
        self.pos += n;
        Ok(n)
    }
}

pub fn run_real(bytes: &[u8], chunk_seed: Option<u64>) -> String {
    let res = match chunk_seed {
        None => dimacs_real::parse_cnf::<RecSink>(bytes, ()),
        Some(s) => dimacs_real::parse_cnf::<RecSink>(Chunky { data: bytes, pos: 0, rng: Rng::new(s) }, ()),
    };
    match res {
        Ok(sink) => {
            let mut s = format!("ok {} {}", sink.nv, sink.clauses.len());
            for c in &sink.clauses {
                s.push_str(&format!(" {}", c.len()));
                for l in c {
                    s.push_str(&format!(" {}", l));
                }
            }
            s
        }
        Err(e) => err_text(e),
    }
}

fn err_text(e: DimacsParseError) -> String {
    match e {
        DimacsParseError::Io(_) => "err io".to_string(),
        DimacsParseError::MissingHeader => "err missingHeader".to_string(),
        DimacsParseError::InvalidHeader(_) => "err invalidHeader".to_string(),
        DimacsParseError::DuplicateHeader => "err duplicateHeader".to_string(),
        DimacsParseError::UnexpectedCharacter(c) => format!("err unexpectedChar {}", c as u32),
        DimacsParseError::InvalidLiteral(_) => "err invalidLiteral".to_string(),
        DimacsParseError::UnterminatedClause => "err unterminated".to_string(),
        DimacsParseError::IncorrectClauseCount { expected, parsed } => format!("err clauseCount {} {}", expected, parsed),
    }
}

/// the real `parse_wcnf` with the recording sink; a panic of the clause callback is an answer too
pub fn run_real_wcnf(bytes: &[u8], chunk_seed: Option<u64>) -> String {
    let res = std::panic::catch_unwind(|| match chunk_seed {
        None => dimacs_real::parse_wcnf::<RecSink>(bytes, ()),
        Some(s) => dimacs_real::parse_wcnf::<RecSink>(Chunky { data: bytes, pos: 0, rng: Rng::new(s) }, ()),
    });
    match res {
        Err(_) => "err panicked".to_string(),
        Ok(Err(e)) => err_text(e),
        Ok(Ok(sink)) => {
            let mut s = format!("ok {} {}", sink.nv, sink.weighted.len());
            for (w, c) in &sink.weighted {
                match w {
                    None => s.push_str(" h"),
                    Some(w) => s.push_str(&format!(" s {}", w)),
                }
                s.push_str(&format!(" {}", c.len()));
                for l in c {
                    s.push_str(&format!(" {}", l));
                }
            }
            s
        }
    }
}

/// a WCNF file: the CNF layouts with a weight in front of every clause and a `p wcnf` header
pub fn gen_wcnf(r: &mut Rng) -> Vec<u8> {
    let cnf = gen_file(r);
    let top = 1 + r.usize(9);
    let mut out: Vec<u8> = vec![];
    // rewrite the header and put a weight at the start of every clause; done on the text so that
    // all layout quirks of `gen_file` carry over
    let text = String::from_utf8_lossy(&cnf).into_owned();
    let mut at_clause_start = true;
    let mut i = 0;
    let b = text.as_bytes();
    while i < b.len() {
        if b[i..].starts_with(b"p cnf ") && r.chance(19, 20) {
            out.extend_from_slice(b"p wcnf ");
            i += 6;
            // copy the rest of the header line and append the top weight
            let mut line: Vec<u8> = vec![];
            while i < b.len() && b[i] != b'\n' {
                line.push(b[i]);
                i += 1;
            }
            out.extend(&line);
            if r.chance(19, 20) {
                out.extend(format!(" {}", top).bytes());
            }
            continue;
        }
        let c = b[i];
        if at_clause_start && (c == b'-' || c.is_ascii_digit()) && r.chance(24, 25) {
            let w = match r.usize(12) {
                0 => top,
                1 => 0,
                2 => 4294967295usize.min(usize::MAX),
                _ => 1 + r.usize(9),
            };
            if r.chance(1, 30) {
                out.push(b'-');
            }
            out.extend(format!("{} ", w).bytes());
            at_clause_start = false;
        }
        if c == b'0' && (i == 0 || !b[i - 1].is_ascii_digit() && b[i - 1] != b'-') && (i + 1 >= b.len() || !b[i + 1].is_ascii_digit()) {
            at_clause_start = true;
        }
        if c == b'c' && (i == 0 || b[i - 1] == b'\n') {
            // comment line: copy verbatim
            while i < b.len() && b[i] != b'\n' {
                out.push(b[i]);
                i += 1;
            }
            continue;
        }
        out.push(c);
        i += 1;
    }
    out
}

fn ws_run(r: &mut Rng, alphabet: &[u8], min: usize, max: usize) -> Vec<u8> {
    let n = min + r.usize(max - min + 1);
    (0..n).map(|_| *r.pick(alphabet)).collect()
}

fn comment(r: &mut Rng) -> Vec<u8> {
    let mut v = vec![b'c'];
    let texts: [&[u8]; 6] = [b" a comment", b"", b" p cnf 1 1", b" 1 2 0", b"\t-3 0 \r", b"c 0"];
    v.extend_from_slice(texts[r.usize(texts.len())]);
    v.push(b'\n');
    v
}

/// a file for the formula in a random layout of the family covered by `layout_independent`, or a
/// perturbation of one, or junk
pub fn gen_file(r: &mut Rng) -> Vec<u8> {
    if r.chance(1, 12) {
        // junk over the parser's alphabet
        let alphabet = b"pcnf 0123456789-+\n\t\r\x0b\x0cx%";
        let n = r.usize(30);
        return (0..n).map(|_| *r.pick(alphabet)).collect();
    }
    let nv = r.usize(7);
    let nc = r.usize(6);
    let mut clauses: Vec<Vec<i64>> = vec![];
    for _ in 0..nc {
        let len = r.usize(4);
        let mut c = vec![];
        for _ in 0..len {
            let v = if r.chance(1, 25) {
                *r.pick(&[2147483647i64, 2147483648, 99999999999, 10, 100, 1000000])
            } else {
                1 + r.usize(nv.max(1)) as i64
            };
            c.push(if r.chance(1, 2) { v } else { -v });
        }
        clauses.push(c);
    }
    let blank = [b' ', b'\t'];
    let hdr_ws: &[u8] = if r.chance(1, 6) { &[b' ', b'\t', 0x0b, 0x0c, b'\r'] } else { &blank };
    let body_ws: &[u8] = if r.chance(1, 3) { &[b' ', b'\t', b'\n', b'\r', 0x0c] } else { &[b' ', b'\n'] };
    let mut out: Vec<u8> = vec![];
    // leading comments / blank lines
    for _ in 0..r.usize(3) {
        if r.chance(1, 2) {
            out.extend(comment(r));
        } else {
            out.extend(ws_run(r, &[b' ', b'\n', b'\t', b'\r'], 1, 3));
        }
    }
    let header_last = r.chance(1, 10) && clauses.is_empty();
    let declared = if r.chance(1, 10) { nc + 1 - r.usize(3).min(nc + 1) } else { nc };
    let mut header: Vec<u8> = b"p cnf ".to_vec();
    header.extend(ws_run(r, hdr_ws, 0, 2));
    if r.chance(1, 15) {
        header.push(b'+');
    }
    header.extend(format!("{}", nv).bytes());
    header.extend(ws_run(r, hdr_ws, 1, 3));
    header.extend(format!("{}", declared).bytes());
    header.extend(ws_run(r, hdr_ws, 0, 2));
    if r.chance(1, 20) {
        header.extend(b" 7");
    }
    let header_pos = if r.chance(1, 15) && !clauses.is_empty() { 1 + r.usize(clauses.len()) } else { 0 };
    let emit_header = |out: &mut Vec<u8>, last: bool| {
        out.extend(&header);
        if !last {
            out.push(b'\n');
        }
    };
    if header_pos == 0 && !header_last {
        emit_header(&mut out, false);
    }
    let mut at_start = true;
    for (i, c) in clauses.iter().enumerate() {
        if header_pos == i + 1 - 1 && header_pos != 0 && i + 1 == header_pos {
            // header in the middle of the body (only legal at the start of a line)
            if !at_start {
                out.push(b'\n');
            }
            emit_header(&mut out, false);
            at_start = true;
        }
        for l in c {
            if at_start && r.chance(1, 6) {
                out.extend(comment(r));
            }
            out.extend(format!("{}", l).bytes());
            let w = ws_run(r, body_ws, 1, 3);
            at_start = w.contains(&b'\n');
            out.extend(w);
        }
        if at_start && r.chance(1, 6) {
            out.extend(comment(r));
        }
        out.push(b'0');
        let last = i + 1 == clauses.len();
        let min_ws = if last || r.chance(1, 8) { 0 } else { 1 };
        let w = ws_run(r, body_ws, min_ws, 2);
        if w.contains(&b'\n') {
            at_start = true;
        }
        out.extend(w);
    }
    if r.chance(1, 25) {
        // a second header (only recognised at the start of a line)
        if !at_start && r.chance(3, 4) {
            out.push(b'\n');
        }
        emit_header(&mut out, false);
        at_start = true;
    }
    if header_last {
        if !at_start {
            out.push(b'\n');
        }
        emit_header(&mut out, r.chance(1, 2));
    }
    // perturbations
    if r.chance(1, 4) && !out.is_empty() {
        let alphabet = b"pcnf 0123456789-+\n\t\r\x0b\x0cx%";
        match r.usize(3) {
            0 => {
                let i = r.usize(out.len());
                out[i] = *r.pick(alphabet);
            }
            1 => {
                let i = r.usize(out.len());
                let _ = out.remove(i);
            }
            _ => {
                let i = r.usize(out.len() + 1);
                out.insert(i, *r.pick(alphabet));
            }
        }
    }
    if r.chance(1, 20) {
        let cut = r.usize(out.len() + 1);
        out.truncate(cut);
    }
    out
}
